---- MODULE BlsAgg ----
(* BLS aggregation with symbolic discrete logs over Z_Q: H(m) are independent generators, so an element of the
   signature group is a vector of coefficients (one per message).  sigma_i = sk_i * H(m_i); Aggregate adds;
   VerifyAggregate(pairs, agg) holds iff sum over pairs of sk(pk) * H(m) equals agg and every pk is valid
   (non-identity, i.e. sk # 0).                                                                         *)
EXTENDS Integers, Sequences, FiniteSets, TLC
CONSTANTS Q, Msgs, NSigners
Sk == 1..(Q-1)
Vec == [Msgs -> 0..(Q-1)]
Zero == [m \in Msgs |-> 0]
AddV(a, b) == [m \in Msgs |-> (a[m] + b[m]) % Q]
SigOf(sk, m) == [x \in Msgs |-> IF x = m THEN sk % Q ELSE 0]
RECURSIVE Sum(_)
Sum(pairs) == IF pairs = <<>> THEN Zero ELSE AddV(SigOf(Head(pairs)[1], Head(pairs)[2]), Sum(Tail(pairs)))
VerifyAgg(pairs, agg) == (\A i \in 1..Len(pairs) : pairs[i][1] # 0) /\ Sum(pairs) = agg
VARIABLES signers, presented, verdict
Init == /\ signers \in [1..NSigners -> Sk \X Msgs] /\ presented = <<>> /\ verdict = "none"
Perms == {p \in [1..NSigners -> 1..NSigners] : \A i, j \in 1..NSigners : i # j => p[i] # p[j]}
Present == /\ presented = <<>>
           /\ \/ \E p \in Perms : presented' = <<"permuted", [i \in 1..NSigners |-> signers[p[i]]]>>
              \/ \E i \in 1..NSigners : presented' = <<"duplicated", Append(signers, signers[i])>>
              \/ \E i \in 1..NSigners : presented' = <<"missing", [j \in 1..(NSigners-1) |-> IF j < i THEN signers[j] ELSE signers[j+1]]>>
              \/ \E i \in 1..NSigners, m \in Msgs : m # signers[i][2] /\ presented' = <<"other-msg", [signers EXCEPT ![i] = <<signers[i][1], m>>]>>
           /\ UNCHANGED <<signers, verdict>>
Verify == /\ presented # <<>> /\ verdict = "none"
          /\ verdict' = (IF VerifyAgg(presented[2], Sum(signers)) THEN "accept" ELSE "reject") /\ UNCHANGED <<signers, presented>>
Next == Present \/ Verify
Spec == Init /\ [][Next]_<<signers, presented, verdict>>
PermutationAccepted == (verdict # "none" /\ presented[1] = "permuted") => verdict = "accept"
OthersRejected == (verdict # "none" /\ presented[1] # "permuted") => verdict = "reject"
====
