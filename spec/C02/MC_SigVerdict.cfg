SPECIFICATION Spec
INVARIANTS AcceptOnlyHonest VerdictIsExpected EveryAlterationChanges
CHECK_DEADLOCK FALSE
