SPECIFICATION Spec
CONSTANTS Q = 5
 Msgs = {"a", "b", "c"}
 NSigners = 3
INVARIANTS PermutationAccepted OthersRejected
CHECK_DEADLOCK FALSE
