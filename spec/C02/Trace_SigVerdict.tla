---- MODULE Trace_SigVerdict ----
(* Judges aggregated verification outcomes of real signature code: per (variant, site) `total` concrete inputs of
   that site, of which `accepted` verified and `panics` panicked.  Expectations come from SigVerdict / BlsAgg.  *)
EXTENDS Integers, Sequences, TLC, Json
VARIABLES l, bad
SV == INSTANCE SigVerdict WITH variant <- 0, site <- 0, input <- 0, verdict <- 0
OkSite(r) ==
  /\ r.variant \in DOMAIN SV!Variants /\ r.site \in SV!Sites /\ SV!Applies(SV!Variants[r.variant], r.site)
  /\ r.total > 0 /\ r.panics = 0 /\ r.size_ok
  /\ (SV!Variants[r.variant].det => r.det)
  /\ IF SV!Expected(r.site) = "accept" THEN r.accepted = r.total ELSE r.accepted = 0
OkAgg(r) == r.total > 0 /\ r.panics = 0 /\ (IF r.site = "permuted" THEN r.accepted = r.total ELSE r.accepted = 0)
OkLine(r) == CASE r.ev = "site" -> OkSite(r) [] r.ev = "blsagg" -> OkAgg(r) [] OTHER -> FALSE
INSTANCE LinesTrace WITH Ok <- OkLine
ASSUME TLCSet(1, 0) /\ TLCSet(2, {}) /\ TLCSet(3, ndJsonDeserialize("trace.ndjson"))
====
