---- MODULE SigVerdict ----
(* C02.  Signature verification as a decision over symbolic inputs.  A signature on (sk, dom, msg) is the
   record of what it binds; an encoding of it is canonical or altered in one of the listed ways.
   Verify(pk', dom', msg', enc') holds iff every bound component equals the honest one AND the encoding is
   the canonical one of exactly the advertised size.  Hybrids are conjunctions over a split at a fixed offset;
   BLS aggregation is modelled with symbolic discrete logs (sub-module BlsAgg below).                    *)
EXTENDS Integers, Sequences, FiniteSets, TLC
\* ---- the variants circl offers: [api, ctx (max context length, -1 = no context), det, scalar (has an S < L component), parts]
V(api, ctx, det, scalar, parts) == [api |-> api, ctx |-> ctx, det |-> det, scalar |-> scalar, parts |-> parts]
Variants ==
  [ n \in {"scheme:Ed25519", "scheme:Ed448", "scheme:Ed25519-Dilithium2", "scheme:Ed448-Dilithium3", "scheme:Dilithium2", "scheme:Dilithium3",
           "scheme:Dilithium5", "scheme:ML-DSA-44", "scheme:ML-DSA-65", "scheme:ML-DSA-87",
           "ed25519.pure", "ed25519.ctx", "ed25519.ph", "ed448.pure", "ed448.ph", "mldsa44", "mldsa65", "mldsa87",
           "bls.G1", "bls.G2"} |->
    CASE n = "scheme:Ed25519" -> V("scheme", -1, TRUE, TRUE, 1)        \* the sign.Scheme wrapper of Ed25519 refuses contexts
      [] n = "scheme:Ed448" -> V("scheme", 255, TRUE, TRUE, 1)
      [] n = "scheme:Ed25519-Dilithium2" -> V("scheme", -1, TRUE, TRUE, 2)
      [] n = "scheme:Ed448-Dilithium3" -> V("scheme", -1, TRUE, TRUE, 2)
      [] n \in {"scheme:Dilithium2", "scheme:Dilithium3", "scheme:Dilithium5"} -> V("scheme", -1, TRUE, FALSE, 1)
      [] n \in {"scheme:ML-DSA-44", "scheme:ML-DSA-65", "scheme:ML-DSA-87"} -> V("scheme", 255, TRUE, FALSE, 1)
      [] n = "ed25519.pure" -> V("pkg", -1, TRUE, TRUE, 1)
      [] n = "ed25519.ctx" -> V("pkg", 255, TRUE, TRUE, 1)
      [] n = "ed25519.ph" -> V("pkg", 255, TRUE, TRUE, 1)
      [] n \in {"ed448.pure", "ed448.ph"} -> V("pkg", 255, TRUE, TRUE, 1)
      [] n \in {"mldsa44", "mldsa65", "mldsa87"} -> V("pkg", 255, TRUE, FALSE, 1)
      [] n \in {"bls.G1", "bls.G2"} -> V("pkg", -1, TRUE, FALSE, 1) ]
\* ---- alteration sites
Sites == {"none", "ctx-nil-vs-empty",                                            \* equivalent inputs: must still verify
          "pk-other", "pk-bit", "msg-flip", "msg-trunc", "msg-ext", "msg-empty", "msg-other-len",
          "ctx-other", "ctx-longer", "ctx-dropped", "ctx-added", "mode",
          "sig-bit", "sig-trunc", "sig-append", "sig-splusl", "sig-swap", "sig-zero", "sig-empty"}
Equivalent == {"none", "ctx-nil-vs-empty"}
Applies(v, s) ==
  CASE s \in {"ctx-other", "ctx-longer", "ctx-dropped", "ctx-nil-vs-empty"} -> v.ctx >= 0
    [] s = "ctx-added" -> v.ctx >= 0
    [] s = "mode" -> v.api = "pkg" /\ v.ctx >= 0          \* another variant of the same family under the same key
    [] s = "sig-splusl" -> v.scalar
    [] s = "sig-swap" -> v.parts = 2
    [] OTHER -> TRUE
Expected(s) == IF s \in Equivalent THEN "accept" ELSE "reject"
Table == { [variant |-> n, site |-> s, expect |-> Expected(s)] : n \in DOMAIN Variants, s \in {x \in Sites : TRUE} } 
Scenarios == { r \in Table : Applies(Variants[r.variant], r.site) }

\* ---- the verification decision as a machine: honest signing, one alteration, verification
Honest == [pk |-> "pk", dom |-> "dom", msg |-> "msg", core |-> <<"pk", "dom", "msg">>, enc |-> "canonical"]
Alter(x, s) ==
  CASE s = "pk-other" \/ s = "pk-bit" -> [x EXCEPT !.pk = "pk2"]
    [] s \in {"msg-flip", "msg-trunc", "msg-ext", "msg-empty", "msg-other-len"} -> [x EXCEPT !.msg = "msg2"]
    [] s \in {"ctx-other", "ctx-longer", "ctx-dropped", "ctx-added", "mode"} -> [x EXCEPT !.dom = "dom2"]
    [] s = "sig-bit" -> [x EXCEPT !.core = <<"?", "?", "?">>]
    [] s \in {"sig-trunc", "sig-append", "sig-splusl", "sig-swap", "sig-zero", "sig-empty"} -> [x EXCEPT !.enc = s]
    [] OTHER -> x
VerifyDecision(x) == x.core = <<x.pk, x.dom, x.msg>> /\ x.enc = "canonical"
VARIABLES variant, site, input, verdict
Init == variant \in DOMAIN Variants /\ site \in Sites /\ Applies(Variants[variant], site) /\ input = Honest /\ verdict = "none"
DoAlter == verdict = "none" /\ input = Honest /\ site \notin Equivalent /\ input' = Alter(input, site) /\ UNCHANGED <<variant, site, verdict>>
DoVerify == /\ verdict = "none" /\ (site \in Equivalent \/ input # Honest)
            /\ verdict' = (IF VerifyDecision(input) THEN "accept" ELSE "reject") /\ UNCHANGED <<variant, site, input>>
Next == DoAlter \/ DoVerify
Spec == Init /\ [][Next]_<<variant, site, input, verdict>>
AcceptOnlyHonest == verdict = "accept" => input = Honest          \* no accepting alteration exists
VerdictIsExpected == verdict # "none" => verdict = Expected(site)
EveryAlterationChanges == \A s \in Sites \ Equivalent : Alter(Honest, s) # Honest
====
