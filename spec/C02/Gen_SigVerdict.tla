---- MODULE Gen_SigVerdict ----
EXTENDS SigVerdict, Json, SequencesExt
ASSUME JsonSerialize("scenarios.json", SetToSeq(Scenarios))
ASSUME JsonSerialize("variants.json", Variants)
====
