---- MODULE Trace_Lockstep ----
EXTENDS Integers, Sequences, TLC, Json
VARIABLES prim, k, l
Cfgs == {"default", "noavx2", "nobmi2", "noadx", "alloff", "purego", "purego-alloff"}
INSTANCE Lockstep WITH Configs <- Cfgs
Tr == TLCGet(3)
TInit == l = 1 /\ prim = "" /\ k = 0
TNext == l <= Len(Tr) /\ Op(Tr[l]) /\ l' = l + 1
TSpec == TInit /\ [][TNext]_<<prim, k, l>>
ASSUME TLCSet(1, 0) /\ TLCSet(3, ndJsonDeserialize("trace.ndjson"))
HighWater == TLCSet(1, IF l > TLCGet(1) THEN l ELSE TLCGet(1))
Verdict == JsonSerialize("verdict.json", [consumed |-> TLCGet(1) - 1, total |-> Len(Tr)])
====
