---- MODULE MC_Lockstep ----
(* Non-vacuity: two configurations run a three-step deterministic machine f(x) = 2x+1 mod 5; a back-end with a seeded
   deviation on one input (x = 3) is caught by Agree at the first transcript line that reaches it. *)
EXTENDS Integers, Sequences, FiniteSets, TLC
CONSTANTS Buggy
VARIABLES prim, k, x, ok
LS == INSTANCE Lockstep WITH Configs <- {"a", "b"}
F(c, v) == IF Buggy /\ c = "b" /\ v = 3 THEN 0 ELSE (2 * v + 1) % 5
Init == prim = "" /\ k = 0 /\ x \in 0..4 /\ ok = TRUE
Next == /\ k < 3 /\ ok
        /\ LET e == [prim |-> "toy", k |-> k + 1, ins |-> [c \in {"a", "b"} |-> x], outs |-> [c \in {"a", "b"} |-> F(c, x)]]
           IN ok' = LS!Agree(e.outs) /\ k' = k + 1 /\ prim' = "toy" /\ x' = F("a", x)
Spec == Init /\ [][Next]_<<prim, k, x, ok>>
InLockstep == ok
====
