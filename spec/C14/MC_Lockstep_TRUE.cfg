SPECIFICATION Spec
CONSTANTS Buggy = TRUE
INVARIANT InLockstep
CHECK_DEADLOCK FALSE
