SPECIFICATION TSpec
CONSTRAINT HighWater
POSTCONDITION Verdict
CHECK_DEADLOCK FALSE
