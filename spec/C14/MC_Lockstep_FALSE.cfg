SPECIFICATION Spec
CONSTANTS Buggy = FALSE
INVARIANT InLockstep
CHECK_DEADLOCK FALSE
