---- MODULE Lockstep ----
(* C14.  One deterministic transcript machine: the k-th operation of a primitive's transcript has ONE input and ONE output.
   Every build / CPU configuration is a refinement of it, so the merged trace - one line per operation with the input digest
   seen and the output digest produced under every configuration - must show, line by line and without gaps, the same input
   everywhere (the transcript generator itself must not depend on the back-end) and the same output everywhere.
   The specification is small on purpose: the content of C14 is the set of operations and configurations that are compared. *)
EXTENDS Integers, Sequences, FiniteSets, TLC
CONSTANTS Configs
VARIABLES prim, k
Start(e) == e.k = 1 /\ prim' = e.prim /\ k' = 1
Next1(e) == e.k = k + 1 /\ e.prim = prim /\ k' = e.k /\ UNCHANGED prim
Agree(f) == Configs \subseteq DOMAIN f /\ \A c, d \in Configs : f[c] = f[d]
Op(e) == (Start(e) \/ Next1(e)) /\ Agree(e.ins) /\ Agree(e.outs)
====
