---- MODULE Sha512Jobs ----
(* SHA-512 as a job machine: jobs.json is a sequence of [in: bytes, want: 64 bytes]; one action per round. *)
EXTENDS Sha512Ops, TLC, Json
Jobs == JsonDeserialize("jobs.json")
VARIABLES pc, bad, hs, st, ws, t, blk
vars == <<pc, bad, hs, st, ws, t, blk>>
J == Jobs[pc]
Done == pc > Len(Jobs)
NBlocks == ShaPadLen(Len(J.in)) \div 128
StartBlock == /\ ~Done /\ t = -1
              /\ ws' = [i \in 1..16 |-> BlockWord(J.in, blk, i - 1)] /\ st' = hs /\ t' = 0 /\ UNCHANGED <<pc, bad, hs, blk>>
Step == /\ t \in 0..79
        /\ LET w == IF t < 16 THEN ws[t + 1] ELSE NextW(ws)
           IN /\ st' = Round(st, w, t)
              /\ ws' = IF t < 16 THEN ws ELSE [i \in 1..16 |-> IF i < 16 THEN ws[i + 1] ELSE w]
        /\ t' = t + 1 /\ UNCHANGED <<pc, bad, hs, blk>>
EndBlock == /\ t = 80
            /\ LET h2 == [i \in 1..8 |-> Add64(hs[i], st[i])]
               IN IF blk + 1 < NBlocks THEN hs' = h2 /\ blk' = blk + 1 /\ UNCHANGED <<pc, bad>>
                  ELSE /\ bad' = IF Digest(h2) = J.want THEN bad ELSE bad \cup {pc}
                       /\ pc' = pc + 1 /\ hs' = H512 /\ blk' = 0
            /\ t' = -1 /\ UNCHANGED <<st, ws>>
Init == pc = 1 /\ bad = {} /\ hs = H512 /\ st = H512 /\ ws = <<>> /\ t = -1 /\ blk = 0
Next == StartBlock \/ Step \/ EndBlock
Spec == Init /\ [][Next]_vars
ASSUME TLCSet(1, 0) /\ TLCSet(2, {})
HighWater == IF pc > TLCGet(1) THEN TLCSet(1, pc) /\ TLCSet(2, bad) ELSE TRUE
Verdict == JsonSerialize("verdict.json", [consumed |-> TLCGet(1) - 1, total |-> Len(Jobs), bad |-> TLCGet(2)])
====
