SPECIFICATION LSpec
CONSTRAINT HighWater
POSTCONDITION Verdict
CHECK_DEADLOCK FALSE
