---- MODULE KeccakOps ----
(* Keccak-p[1600] step mappings (FIPS 202 section 3.2) on 25 lanes of four 16-bit limbs (TLC integers are
   32-bit).  A : 0..24 -> lane, index x + 5y; lane = <<l1,l2,l3,l4>>, l1 least significant.
   Pure operators; the machines that use them take one action per step so that every intermediate
   array is forced into a state (TLC function values are lazy).                                   *)
EXTENDS Integers, Sequences, Bitwise
M16 == 65535
XorL(a, b) == <<a[1] ^^ b[1], a[2] ^^ b[2], a[3] ^^ b[3], a[4] ^^ b[4]>>
NotL(a) == <<M16 - a[1], M16 - a[2], M16 - a[3], M16 - a[4]>>
AndL(a, b) == <<a[1] & b[1], a[2] & b[2], a[3] & b[3], a[4] & b[4]>>
RotL(a, n) == LET w == n \div 16
                  b == n % 16
                  Get(i)  == a[((((i - 1 - w) % 4) + 4) % 4) + 1]
                  Prev(i) == a[((((i - 2 - w) % 4) + 4) % 4) + 1]
                  Limb(i) == IF b = 0 THEN Get(i)
                             ELSE ((Get(i) % (2^(16 - b))) * (2^b)) + shiftR(Prev(i), 16 - b)
              IN <<Limb(1), Limb(2), Limb(3), Limb(4)>>
RhoOff == <<0, 1, 62, 28, 27, 36, 44, 6, 55, 20, 3, 10, 43, 25, 39, 41, 45, 15, 21, 8, 18, 2, 61, 56, 14>>
RC == << <<1,0,0,0>>, <<32898,0,0,0>>, <<32906,0,0,32768>>, <<32768,32768,0,32768>>,
         <<32907,0,0,0>>, <<1,32768,0,0>>, <<32897,32768,0,32768>>, <<32777,0,0,32768>>,
         <<138,0,0,0>>, <<136,0,0,0>>, <<32777,32768,0,0>>, <<10,32768,0,0>>,
         <<32907,32768,0,0>>, <<139,0,0,32768>>, <<32905,0,0,32768>>, <<32771,0,0,32768>>,
         <<32770,0,0,32768>>, <<128,0,0,32768>>, <<32778,0,0,0>>, <<10,32768,0,32768>>,
         <<32897,32768,0,32768>>, <<32896,0,0,32768>>, <<1,32768,0,0>>, <<32776,32768,0,32768>> >>
Idx(x, y) == x + 5*y
ZeroLane == <<0,0,0,0>>
ZeroState == [i \in 0..24 |-> ZeroLane]
StepTheta(A) ==
  LET C == [x \in 0..4 |-> XorL(XorL(XorL(XorL(A[Idx(x,0)], A[Idx(x,1)]), A[Idx(x,2)]), A[Idx(x,3)]), A[Idx(x,4)])]
      D == [x \in 0..4 |-> XorL(C[(x+4)%5], RotL(C[(x+1)%5], 1))]
  IN [i \in 0..24 |-> XorL(A[i], D[i % 5])]
StepRhoPi(A) ==           \* B[y, 2x+3y] = rot(A[x,y], r[x,y])
  [j \in 0..24 |-> LET y == j % 5
                       x == CHOOSE xx \in 0..4 : ((2*xx + 3*y) % 5) = (j \div 5)
                   IN RotL(A[Idx(x,y)], RhoOff[Idx(x,y)+1])]
StepChiIota(A, r) ==      \* chi, then iota with round constant number r (1..24)
  [j \in 0..24 |-> LET x == j % 5   y == j \div 5
                       v == XorL(A[j], AndL(NotL(A[Idx((x+1)%5, y)]), A[Idx((x+2)%5, y)]))
                   IN IF j = 0 THEN XorL(v, RC[r]) ELSE v]
\* first round-constant index of Keccak-p[1600, nr]: the LAST nr rounds of Keccak-f
FirstRound(nr) == 25 - nr
\* byte i (1-based) of the state, little-endian lanes
StateByte(A, i) == LET j == (i-1) \div 8  t == ((i-1) % 8) \div 2
                   IN IF ((i-1) % 2) = 0 THEN A[j][t+1] % 256 ELSE A[j][t+1] \div 256
RECURSIVE StateBytesAcc(_,_,_,_)
StateBytesAcc(A, i, n, acc) == IF i > n THEN acc ELSE StateBytesAcc(A, i+1, n, Append(acc, StateByte(A, i)))
StateBytes(A, n) == StateBytesAcc(A, 1, n, <<>>)
\* multi-rate padding pad10*1 with domain byte ds (which already contains the first padding bit)
PadLen(inlen, rate) == ((inlen \div rate) + 1) * rate
PadByte(in, ds, rate, i) == LET b == IF i <= Len(in) THEN in[i] ELSE IF i = Len(in) + 1 THEN ds ELSE 0
                            IN IF i = PadLen(Len(in), rate) THEN (b ^^ 128) ELSE b
BlockLane(in, ds, rate, k, j) ==      \* lane j of (0-based) block k of the padded input
  <<PadByte(in, ds, rate, k*rate + 8*j + 1) + 256 * PadByte(in, ds, rate, k*rate + 8*j + 2),
    PadByte(in, ds, rate, k*rate + 8*j + 3) + 256 * PadByte(in, ds, rate, k*rate + 8*j + 4),
    PadByte(in, ds, rate, k*rate + 8*j + 5) + 256 * PadByte(in, ds, rate, k*rate + 8*j + 6),
    PadByte(in, ds, rate, k*rate + 8*j + 7) + 256 * PadByte(in, ds, rate, k*rate + 8*j + 8)>>
AbsorbBlock(A, in, ds, rate, k) == [i \in 0..24 |-> IF i < (rate \div 8) THEN XorL(A[i], BlockLane(in, ds, rate, k, i)) ELSE A[i]]
====
