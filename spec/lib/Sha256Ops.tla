---- MODULE Sha256Ops ----
(* FIPS 180-4 SHA-256 over 32-bit words held as two 16-bit limbs (least significant first); HMAC (RFC 2104) and HKDF (RFC 5869) inputs on top. *)
EXTENDS Integers, Sequences, Bitwise
K256 == << <<12184, 17034>>, <<17553, 28983>>, <<64463, 46528>>, <<56229, 59829>>, <<49755, 14678>>, <<4593, 23025>>, <<33444, 37439>>, <<24277, 43804>>, <<43672, 55303>>, <<23297, 4739>>, <<34238, 9265>>, <<32195, 21772>>, <<23924, 29374>>, <<45566, 32990>>, <<1703, 39900>>, <<61812, 49563>>, <<27073, 58523>>, <<18310, 61374>>, <<40390, 4033>>, <<41420, 9228>>, <<11375, 11753>>, <<33962, 19060>>, <<43484, 23728>>, <<35034, 30457>>, <<20818, 38974>>, <<50797, 43057>>, <<10184, 45059>>, <<32711, 48985>>, <<3059, 50912>>, <<37191, 54695>>, <<25425, 1738>>, <<10599, 5161>>, <<2693, 10167>>, <<8504, 11803>>, <<28156, 19756>>, <<3347, 21304>>, <<29524, 25866>>, <<2747, 30314>>, <<51502, 33218>>, <<11397, 37490>>, <<59553, 41663>>, <<26187, 43034>>, <<35696, 49739>>, <<20899, 51052>>, <<59417, 53650>>, <<1572, 54937>>, <<13701, 62478>>, <<41072, 4202>>, <<49430, 6564>>, <<27656, 7735>>, <<30540, 10056>>, <<48309, 13488>>, <<3251, 14620>>, <<43594, 20184>>, <<51791, 23452>>, <<28659, 26670>>, <<33518, 29839>>, <<25455, 30885>>, <<30740, 33992>>, <<520, 36039>>, <<65530, 37054>>, <<27883, 42064>>, <<41975, 48889>>, <<30962, 50801>> >>
H256 == << <<58983, 27145>>, <<44677, 47975>>, <<62322, 15470>>, <<62778, 42319>>, <<21119, 20750>>, <<26764, 39685>>, <<55723, 8067>>, <<52505, 23520>> >>
Xor2(a, b) == <<a[1] ^^ b[1], a[2] ^^ b[2]>>
And2(a, b) == <<a[1] & b[1], a[2] & b[2]>>
Not2(a) == <<65535 - a[1], 65535 - a[2]>>
Add32(a, b) == LET s1 == a[1] + b[1]   s2 == a[2] + b[2] + (s1 \div 65536) IN <<s1 % 65536, s2 % 65536>>
RotR32(a, n) == LET x == IF n >= 16 THEN <<a[2], a[1]>> ELSE a   b == n % 16                  \* rotate right by n (0..31)
                IN IF b = 0 THEN x ELSE <<(x[1] \div (2^b)) + ((x[2] % (2^b)) * (2^(16 - b))), (x[2] \div (2^b)) + ((x[1] % (2^b)) * (2^(16 - b)))>>
ShR32(a, n) == LET x == IF n >= 16 THEN <<a[2], 0>> ELSE a   b == n % 16
               IN IF b = 0 THEN x ELSE <<(x[1] \div (2^b)) + ((x[2] % (2^b)) * (2^(16 - b))), x[2] \div (2^b)>>
Ch32(x, y, z) == Xor2(And2(x, y), And2(Not2(x), z))
Maj32(x, y, z) == Xor2(Xor2(And2(x, y), And2(x, z)), And2(y, z))
BSig0(x) == Xor2(Xor2(RotR32(x, 2), RotR32(x, 13)), RotR32(x, 22))
BSig1(x) == Xor2(Xor2(RotR32(x, 6), RotR32(x, 11)), RotR32(x, 25))
SSig0(x) == Xor2(Xor2(RotR32(x, 7), RotR32(x, 18)), ShR32(x, 3))
SSig1(x) == Xor2(Xor2(RotR32(x, 17), RotR32(x, 19)), ShR32(x, 10))
Sha256PadLen(n) == (((n + 9) + 63) \div 64) * 64
Sha256PadByte(in, i) == LET n == Len(in)   total == Sha256PadLen(n)
                        IN IF i <= n THEN in[i] ELSE IF i = n + 1 THEN 128
                           ELSE IF i <= total - 8 THEN 0
                           ELSE LET k == total - i IN IF k >= 4 THEN 0 ELSE ((8 * n) \div (256^k)) % 256
Block256Word(in, k, t) == LET o == 64 * k + 4 * t   B(j) == Sha256PadByte(in, o + j) IN <<B(4) + 256 * B(3), B(2) + 256 * B(1)>>
Round256(st, w, t) == LET T1 == Add32(Add32(Add32(Add32(st[8], BSig1(st[5])), Ch32(st[5], st[6], st[7])), K256[t + 1]), w)
                          T2 == Add32(BSig0(st[1]), Maj32(st[1], st[2], st[3]))
                      IN <<Add32(T1, T2), st[1], st[2], st[3], Add32(st[4], T1), st[5], st[6], st[7]>>
NextW256(ws) == Add32(Add32(Add32(SSig1(ws[15]), ws[10]), SSig0(ws[2])), ws[1])
RECURSIVE Digest256Acc(_, _, _)
Digest256Acc(hs, i, acc) == IF i > 32 THEN acc
                            ELSE LET w == hs[((i - 1) \div 4) + 1]   b == 3 - ((i - 1) % 4)   limb == w[(b \div 2) + 1]
                                 IN Digest256Acc(hs, i + 1, Append(acc, IF (b % 2) = 0 THEN limb % 256 ELSE limb \div 256))
Digest256(hs) == Digest256Acc(hs, 1, <<>>)
\* HMAC with a key of at most 64 bytes: the two hash inputs
HmacKey0(key) == [j \in 1..64 |-> IF j <= Len(key) THEN key[j] ELSE 0]
HmacInner(key, msg) == [j \in 1..64 |-> HmacKey0(key)[j] ^^ 54] \o msg
HmacOuter(key, innerDigest) == [j \in 1..64 |-> HmacKey0(key)[j] ^^ 92] \o innerDigest
====
