---- MODULE Sha256Jobs ----
(* SHA-256 / HMAC-SHA-256 as a job machine: jobs.json is a sequence of [key: bytes or empty, in: bytes, want: 32 bytes]; kind "sha" or "hmac". *)
EXTENDS Sha256Ops, TLC, Json
Jobs == JsonDeserialize("jobs.json")
VARIABLES pc, bad, hs, st, ws, t, blk, phase, inner
vars == <<pc, bad, hs, st, ws, t, blk, phase, inner>>
J == Jobs[pc]
Done == pc > Len(Jobs)
In == IF J.kind = "sha" THEN J.in ELSE IF phase = 1 THEN HmacInner(J.key, J.in) ELSE HmacOuter(J.key, inner)
NBlocks == Sha256PadLen(Len(In)) \div 64
StartBlock == /\ ~Done /\ t = -1
              /\ ws' = [i \in 1..16 |-> Block256Word(In, blk, i - 1)] /\ st' = hs /\ t' = 0 /\ UNCHANGED <<pc, bad, hs, blk, phase, inner>>
Step == /\ t \in 0..63
        /\ LET w == IF t < 16 THEN ws[t + 1] ELSE NextW256(ws)
           IN /\ st' = Round256(st, w, t)
              /\ ws' = IF t < 16 THEN ws ELSE [i \in 1..16 |-> IF i < 16 THEN ws[i + 1] ELSE w]
        /\ t' = t + 1 /\ UNCHANGED <<pc, bad, hs, blk, phase, inner>>
EndBlock == /\ t = 64
            /\ LET h2 == [i \in 1..8 |-> Add32(hs[i], st[i])]
               IN IF blk + 1 < NBlocks THEN hs' = h2 /\ blk' = blk + 1 /\ UNCHANGED <<pc, bad, phase, inner>>
                  ELSE IF J.kind = "hmac" /\ phase = 1
                       THEN inner' = Digest256(h2) /\ phase' = 2 /\ hs' = H256 /\ blk' = 0 /\ UNCHANGED <<pc, bad>>
                       ELSE /\ bad' = IF Digest256(h2) = J.want THEN bad ELSE bad \cup {pc}
                            /\ pc' = pc + 1 /\ hs' = H256 /\ blk' = 0 /\ phase' = 1 /\ inner' = <<>>
            /\ t' = -1 /\ UNCHANGED <<st, ws>>
Init == pc = 1 /\ bad = {} /\ hs = H256 /\ st = H256 /\ ws = <<>> /\ t = -1 /\ blk = 0 /\ phase = 1 /\ inner = <<>>
Next == StartBlock \/ Step \/ EndBlock
Spec == Init /\ [][Next]_vars
ASSUME TLCSet(1, 0) /\ TLCSet(2, {})
HighWater == IF pc > TLCGet(1) THEN TLCSet(1, pc) /\ TLCSet(2, bad) ELSE TRUE
Verdict == JsonSerialize("verdict.json", [consumed |-> TLCGet(1) - 1, total |-> Len(Jobs), bad |-> TLCGet(2)])
====
