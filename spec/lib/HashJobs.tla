---- MODULE HashJobs ----
(* Executable FIPS 202 sponge as a job machine.  jobs.json is a sequence of records
     [kind: "sponge", rate, ds, nr, in: bytes, outlen, want: bytes]      Keccak[c](in || ds-padding, outlen) with nr rounds
     [kind: "perm",   nr, st: 200 bytes, want: 200 bytes]               one application of Keccak-p[1600, nr]
   TLC evaluates each job with KeccakOps (three actions per round) and compares with `want`, the bytes
   the implementation under test produced; jobs whose `want` differs are collected in `bad`.         *)
EXTENDS KeccakOps, TLC, Json
Jobs == JsonDeserialize("jobs.json")
VARIABLES A, r, ph, blk, outacc, pc, bad
vars == <<A, r, ph, blk, outacc, pc, bad>>
J == Jobs[pc]
Done == pc > Len(Jobs)
NBlocks == PadLen(Len(J.in), J.rate) \div J.rate
FromBytes(st) == [i \in 0..24 |-> << st[8*i+1] + 256*st[8*i+2], st[8*i+3] + 256*st[8*i+4], st[8*i+5] + 256*st[8*i+6], st[8*i+7] + 256*st[8*i+8] >>]
Start == /\ ~Done /\ ph = "start"
         /\ IF J.kind = "perm" THEN A' = FromBytes(J.st) /\ ph' = "theta"
                               ELSE A' = AbsorbBlock(ZeroState, J.in, J.ds, J.rate, 0) /\ ph' = "theta"
         /\ r' = FirstRound(J.nr) /\ blk' = 0 /\ outacc' = <<>> /\ UNCHANGED <<pc, bad>>
Theta == ph = "theta" /\ A' = StepTheta(A) /\ ph' = "rhopi" /\ UNCHANGED <<r, blk, outacc, pc, bad>>
RhoPi == ph = "rhopi" /\ A' = StepRhoPi(A) /\ ph' = "chi" /\ UNCHANGED <<r, blk, outacc, pc, bad>>
Chi == /\ ph = "chi" /\ A' = StepChiIota(A, r)
       /\ IF r = 24 THEN r' = FirstRound(J.nr) /\ ph' = "permuted" ELSE r' = r + 1 /\ ph' = "theta"
       /\ UNCHANGED <<blk, outacc, pc, bad>>
Finish(out) == /\ bad' = IF out = J.want THEN bad ELSE bad \cup {pc}
               /\ pc' = pc + 1 /\ ph' = "start" /\ outacc' = <<>> /\ blk' = 0 /\ UNCHANGED <<A, r>>
AfterPerm == /\ ph = "permuted"
             /\ IF J.kind = "perm" THEN Finish(StateBytes(A, 200))
                ELSE IF blk + 1 < NBlocks                               \* more input blocks to absorb
                     THEN A' = AbsorbBlock(A, J.in, J.ds, J.rate, blk + 1) /\ blk' = blk + 1 /\ ph' = "theta"
                          /\ UNCHANGED <<r, outacc, pc, bad>>
                ELSE LET acc == outacc \o StateBytes(A, J.rate) IN       \* squeezing
                     IF Len(acc) >= J.outlen THEN Finish(SubSeq(acc, 1, J.outlen))
                     ELSE outacc' = acc /\ ph' = "theta" /\ UNCHANGED <<A, r, blk, pc, bad>>
Init == A = ZeroState /\ r = 1 /\ ph = "start" /\ blk = 0 /\ outacc = <<>> /\ pc = 1 /\ bad = {}
Next == Start \/ Theta \/ RhoPi \/ Chi \/ AfterPerm
Spec == Init /\ [][Next]_vars
ASSUME TLCSet(1, 0) /\ TLCSet(2, {})
HighWater == IF pc > TLCGet(1) THEN TLCSet(1, pc) /\ TLCSet(2, bad) ELSE TRUE
Verdict == JsonSerialize("verdict.json", [consumed |-> TLCGet(1) - 1, total |-> Len(Jobs), bad |-> TLCGet(2)])
====
