---- MODULE K12Jobs ----
(* Executable KangarooTwelve (draft-irtf-cfrg-kangarootwelve-10, = RFC 9861 KT128) on top of KeccakOps:
   S = M || C || right_encode(|C|), 8192-byte chunks; one chunk: TurboSHAKE128(S, 0x07); otherwise
   FinalNode = S_0 || 03 00^7 || CV_1 .. CV_(n-1) || right_encode(n-1) || FF FF with
   CV_i = TurboSHAKE128(S_i, 0x0B, 32) and output TurboSHAKE128(FinalNode, 0x06).
   k12jobs.json: sequence of [msg: bytes, custom: bytes, outlen, want: bytes].                      *)
EXTENDS KeccakOps, TLC, Json
KJobs == JsonDeserialize("k12jobs.json")
CHUNK == 8192
RATE == 168
RECURSIVE BEBytes(_)
BEBytes(x) == IF x = 0 THEN <<>> ELSE BEBytes(x \div 256) \o <<x % 256>>
RightEncode(x) == LET b == BEBytes(x) IN b \o <<Len(b)>>
VARIABLES A, r, ph, blk, outacc, kpc, pc, res, bad
vars == <<A, r, ph, blk, outacc, kpc, pc, res, bad>>
KJ == KJobs[kpc]
S == KJ.msg \o KJ.custom \o RightEncode(Len(KJ.custom))
NChunks == IF Len(S) = 0 THEN 1 ELSE ((Len(S) - 1) \div CHUNK) + 1
ChunkOf(i) == SubSeq(S, i*CHUNK + 1, IF (i+1)*CHUNK < Len(S) THEN (i+1)*CHUNK ELSE Len(S))
\* inner program: leaves 1..n-1 (pc = 1..n-1), then the final node (pc = n)
RECURSIVE CVs(_)
CVs(i) == IF i >= NChunks THEN <<>> ELSE res[i] \o CVs(i + 1)
Job == IF pc < NChunks THEN [ds |-> 11, in |-> ChunkOf(pc), outlen |-> 32]
       ELSE IF NChunks = 1 THEN [ds |-> 7, in |-> S, outlen |-> KJ.outlen]
       ELSE [ds |-> 6, in |-> ChunkOf(0) \o <<3,0,0,0,0,0,0,0>> \o CVs(1) \o RightEncode(NChunks - 1) \o <<255, 255>>, outlen |-> KJ.outlen]
Done == kpc > Len(KJobs)
R0 == FirstRound(12)
Start == /\ ~Done /\ ph = "start"
         /\ A' = AbsorbBlock(ZeroState, Job.in, Job.ds, RATE, 0) /\ ph' = "theta" /\ r' = R0 /\ blk' = 0 /\ outacc' = <<>>
         /\ UNCHANGED <<kpc, pc, res, bad>>
Theta == ph = "theta" /\ A' = StepTheta(A) /\ ph' = "rhopi" /\ UNCHANGED <<r, blk, outacc, kpc, pc, res, bad>>
RhoPi == ph = "rhopi" /\ A' = StepRhoPi(A) /\ ph' = "chi" /\ UNCHANGED <<r, blk, outacc, kpc, pc, res, bad>>
Chi == /\ ph = "chi" /\ A' = StepChiIota(A, r)
       /\ IF r = 24 THEN r' = R0 /\ ph' = "permuted" ELSE r' = r + 1 /\ ph' = "theta"
       /\ UNCHANGED <<blk, outacc, kpc, pc, res, bad>>
AfterPerm ==
  /\ ph = "permuted"
  /\ LET Jb == Job IN
     IF blk + 1 < (PadLen(Len(Jb.in), RATE) \div RATE)
     THEN A' = AbsorbBlock(A, Jb.in, Jb.ds, RATE, blk + 1) /\ blk' = blk + 1 /\ ph' = "theta" /\ UNCHANGED <<r, outacc, kpc, pc, res, bad>>
     ELSE LET acc == outacc \o StateBytes(A, RATE) IN
          IF Len(acc) < Jb.outlen THEN outacc' = acc /\ ph' = "theta" /\ UNCHANGED <<A, r, blk, kpc, pc, res, bad>>
          ELSE LET out == SubSeq(acc, 1, Jb.outlen) IN
               /\ ph' = "start" /\ outacc' = <<>> /\ blk' = 0 /\ UNCHANGED <<A, r>>
               /\ IF pc < NChunks THEN res' = (pc :> out) @@ res /\ pc' = pc + 1 /\ UNCHANGED <<kpc, bad>>
                  ELSE /\ bad' = IF out = KJ.want THEN bad ELSE bad \cup {kpc}
                       /\ kpc' = kpc + 1 /\ pc' = 1 /\ res' = <<>>
Init == A = ZeroState /\ r = R0 /\ ph = "start" /\ blk = 0 /\ outacc = <<>> /\ kpc = 1 /\ pc = 1 /\ res = <<>> /\ bad = {}
Next == Start \/ Theta \/ RhoPi \/ Chi \/ AfterPerm
Spec == Init /\ [][Next]_vars
ASSUME TLCSet(1, 0) /\ TLCSet(2, {})
HighWater == IF kpc > TLCGet(1) THEN TLCSet(1, kpc) /\ TLCSet(2, bad) ELSE TRUE
Verdict == JsonSerialize("verdict.json", [consumed |-> TLCGet(1) - 1, total |-> Len(KJobs), bad |-> TLCGet(2)])
====
