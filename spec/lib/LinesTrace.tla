---- MODULE LinesTrace ----
(* Trace validation for traces whose lines are judged independently of each other: one TLC step per
   line of trace.ndjson; a line the specification does not allow is recorded in `bad` and the run
   continues, so one TLC pass yields every rejected line.  Instantiate with
       VARIABLES l, bad      INSTANCE LinesTrace WITH Ok <- <operator judging one line>          *)
EXTENDS Integers, Sequences, TLC, Json
CONSTANT Ok(_)
VARIABLES l, bad
Tr == TLCGet(3)      \* the root module does ASSUME TLCSet(3, ndJsonDeserialize("trace.ndjson")): parsed once, not per step
LInit == l = 1 /\ bad = {}
LNext == l <= Len(Tr) /\ l' = l + 1 /\ bad' = IF Ok(Tr[l]) THEN bad ELSE bad \cup {l}
LSpec == LInit /\ [][LNext]_<<l, bad>>
HighWater == IF l > TLCGet(1) THEN TLCSet(1, l) /\ TLCSet(2, bad) ELSE TRUE
Verdict == JsonSerialize("verdict.json", [consumed |-> TLCGet(1) - 1, total |-> Len(Tr), bad |-> TLCGet(2)])
====
