---- MODULE BigNat ----
(* Natural numbers as little-endian sequences of base-4096 digits (TLC integers are 32-bit; column sums of a
   product stay below 2^31 up to 128 digits = 1536 bits).  All operators return concrete sequences built by
   accumulator-passing recursion - never lazy function values.  Modular facts are CHECKED with quotients that
   the trace supplies as untrusted hints (IsMod / Congr), so TLC never divides.                            *)
EXTENDS Integers, Sequences
B == 4096
Max(a, b) == IF a > b THEN a ELSE b
Min(a, b) == IF a < b THEN a ELSE b
RECURSIVE SumR(_,_,_,_,_)
SumR(x, y, k, i, hi) == IF i > hi THEN 0 ELSE x[i] * y[k - i + 1] + SumR(x, y, k, i + 1, hi)
Col(x, y, k) == SumR(x, y, k, Max(1, k - Len(y) + 1), Min(k, Len(x)))
RECURSIVE MulC(_,_,_,_,_)
MulC(x, y, k, c, acc) == IF k > Len(x) + Len(y) THEN acc
                         ELSE LET t == (IF k < Len(x) + Len(y) THEN Col(x, y, k) ELSE 0) + c
                              IN MulC(x, y, k + 1, t \div B, Append(acc, t % B))
Mul(x, y) == IF Len(x) = 0 \/ Len(y) = 0 THEN <<>> ELSE MulC(x, y, 1, 0, <<>>)
RECURSIVE AddC(_,_,_,_,_)
AddC(x, y, k, c, acc) == IF k > Max(Len(x), Len(y)) THEN (IF c = 0 THEN acc ELSE Append(acc, c))
   ELSE LET t == (IF k <= Len(x) THEN x[k] ELSE 0) + (IF k <= Len(y) THEN y[k] ELSE 0) + c
        IN AddC(x, y, k + 1, t \div B, Append(acc, t % B))
Add(x, y) == AddC(x, y, 1, 0, <<>>)
RECURSIVE SubC(_,_,_,_,_)                 \* x - y as <<digits, borrowOut>>; borrowOut = 1 iff x < y
SubC(x, y, k, b, acc) == IF k > Max(Len(x), Len(y)) THEN <<acc, b>>
   ELSE LET t == (IF k <= Len(x) THEN x[k] ELSE 0) - (IF k <= Len(y) THEN y[k] ELSE 0) - b
        IN IF t < 0 THEN SubC(x, y, k + 1, 1, Append(acc, t + B)) ELSE SubC(x, y, k + 1, 0, Append(acc, t))
Sub(x, y) == SubC(x, y, 1, 0, <<>>)[1]    \* meaningful only when x >= y
RECURSIVE Norm(_)
Norm(x) == IF Len(x) > 0 /\ x[Len(x)] = 0 THEN Norm(SubSeq(x, 1, Len(x) - 1)) ELSE x
Eq(x, y) == Norm(x) = Norm(y)
Less(x, y) == SubC(x, y, 1, 0, <<>>)[2] = 1
Leq(x, y) == ~Less(y, x)
IsZeroN(x) == Norm(x) = <<>>
IsDigits(x) == \A i \in 1..Len(x) : x[i] \in 0..(B - 1)
One == <<1>>
Small(n) == IF n = 0 THEN <<>> ELSE <<n>>                      \* n < 4096
IsMod(x, p, q, r) == IsDigits(q) /\ IsDigits(r) /\ Eq(x, Add(Mul(q, p), r)) /\ Less(r, p)      \* x mod p = r, q an untrusted hint
\* a and b are congruent modulo p; qa, qb are untrusted quotient hints (a = qa*p + r, b = qb*p + r, r < p)
Congr(a, b, p, qa, qb) ==
  /\ IsDigits(qa) /\ IsDigits(qb)
  /\ LET ra == SubC(a, Mul(qa, p), 1, 0, <<>>)
         rb == SubC(b, Mul(qb, p), 1, 0, <<>>)
     IN ra[2] = 0 /\ rb[2] = 0 /\ Eq(ra[1], rb[1]) /\ Less(Norm(ra[1]), p)
RECURSIVE Pow2Acc(_,_)
Pow2Acc(n, acc) == IF n < 12 THEN Append(acc, 2^n) ELSE Pow2Acc(n - 12, Append(acc, 0))
Pow2(n) == Pow2Acc(n, <<>>)                                     \* 2^n as digits
====
