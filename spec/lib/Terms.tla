---- MODULE Terms ----
(* Symbolic byte-string terms.  Specifications build constructions (RFC 9180, RFC 9380, KEM combiners ...)
   out of these constructors; TLC serialises them to JSON and the Go harness evaluates them with
   primitives that are NOT circl code (crypto/*, x/crypto).  Every label, order, length and domain
   separator therefore comes from the TLA+ text; the evaluator knows nothing about the constructions. *)
EXTENDS Integers, Sequences
Lit(s)   == [t |-> "lit", s |-> s]                     \* ASCII literal
Bytes(b) == [t |-> "bytes", b |-> b]                   \* explicit byte values
Var(n)   == [t |-> "var", n |-> n]                     \* input chosen by the driver
Empty    == [t |-> "bytes", b |-> <<>>]
Cat(xs)  == [t |-> "cat", xs |-> xs]
I2OSP(n, w) == [t |-> "i2osp", n |-> n, w |-> w]
I2OSPVar(v, w) == [t |-> "i2osp-var", v |-> v, w |-> w]   \* I2OSP of an integer variable bound by an enclosing construct
LenOf(x, w) == [t |-> "lenof", x |-> x, w |-> w]       \* I2OSP(len(x), w)
Slice(x, from, to) == [t |-> "slice", x |-> x, from |-> from, to |-> to]   \* 0-based, to exclusive; to = -1: end
Xor(a, b) == [t |-> "xor", a |-> a, b |-> b]
Hash(h, x) == [t |-> "hash", h |-> h, x |-> x]          \* h in "SHA256" "SHA384" "SHA512" "SHA3-256" ...
Shake(h, x, n) == [t |-> "shake", h |-> h, x |-> x, n |-> n]
HkdfExtract(h, salt, ikm) == [t |-> "hkdf-extract", h |-> h, salt |-> salt, ikm |-> ikm]
HkdfExpand(h, prk, info, n) == [t |-> "hkdf-expand", h |-> h, prk |-> prk, info |-> info, n |-> n]
DH(g, sk, pk) == [t |-> "dh", g |-> g, sk |-> sk, pk |-> pk]            \* g in "X25519" "X448" "P256" "P384" "P521"
Pk(g, sk) == [t |-> "pk", g |-> g, sk |-> sk]                           \* serialised public key of sk
Aead(a, k, n, aad, pt) == [t |-> "aead", a |-> a, k |-> k, n |-> n, aad |-> aad, pt |-> pt]
\* first i in 0..255 for which cand (a term over the integer variable "$i"), with `mask` ANDed onto its first byte,
\* is a valid private scalar of group g (in [1, order-1]); RFC 9180 section 7.1.3 rejection sampling
FirstValidScalar(g, mask, cand) == [t |-> "first-valid-scalar", g |-> g, mask |-> mask, cand |-> cand]
====
