CONSTANTS C = 8  Q = 5
