---- MODULE Trace_Eddsa ----
(* sign   : the library's public key and signature are the RFC 8032 ones; in addition TLC re-derives the scalar part from the two
            RFC hash values (hints of the transcription): r = H_r mod L, k = H_k mod L, S = r + k*s mod L, S < L, for the S
            found in the LIBRARY's signature
   verify : the library's verdict is consistent with Rfc8032Verdict on the recorded facts, the verdict is the same through every
            entry point (package function, scheme object, crypto.Signer options) and nothing panics                   *)
EXTENDS BigNat, FieldConsts, Integers, TLC, Json
VARIABLES l, bad
V == INSTANCE Rfc8032Verdict
L(r) == Modulus(IF r.curve = "ed25519" THEN "ed25519scalar" ELSE "goldilocksscalar")
OkSign(r) == /\ r.panics = 0 /\ r.pk = r.ref_pk /\ r.sig = r.ref_sig
             /\ IsMod(r.hr, L(r), r.q1, r.rr) /\ IsMod(r.hk, L(r), r.q2, r.kk)
             /\ IsMod(Add(r.rr, Mul(r.kk, r.s)), L(r), r.q3, r.sdig)                  \* the S in the library's signature
OkVerify(r) == r.panics = 0 /\ V!Consistent(r.facts, r.accepted) /\ r.entry_points_agree
OkLine(r) == CASE r.ev = "sign" -> OkSign(r) [] r.ev = "verify" -> OkVerify(r) [] OTHER -> FALSE
INSTANCE LinesTrace WITH Ok <- OkLine
ASSUME TLCSet(1, 0) /\ TLCSet(2, {}) /\ TLCSet(3, ndJsonDeserialize("trace.ndjson"))
====
