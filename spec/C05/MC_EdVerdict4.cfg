CONSTANTS C = 4  Q = 7
