---- MODULE Ed25519SignJob ----
(* C05, anchor.  RFC 8032 section 5.1 key generation and signing (Ed25519, Ed25519ctx, Ed25519ph) as an executable behaviour:
   SHA-512 (Sha512Ops.tla, one action per round), clamping, scalar multiplication of the base point on edwards25519 in extended
   coordinates with the complete addition law (one action per scalar bit), inversion and point encoding, reduction of the 512-bit
   hash values modulo the group order, S = (r + k s) mod L.  Field arithmetic is on base-4096 digit sequences with the fold
   2^255 = 19 (mod p).  job.json: [variant: "pure" | "ctx" | "ph", seed, msg, ctx, pk, sig]; the verdict says whether the library's
   public key and signature are the RFC's.  Nothing is taken from the implementation. *)
EXTENDS Integers, Sequences, TLC, Json, Sha512Ops
JobIn == JsonDeserialize("job.json")
B == 4096
Max(a, b) == IF a > b THEN a ELSE b
Min(a, b) == IF a < b THEN a ELSE b
Limb(x, i) == IF i <= Len(x) THEN x[i] ELSE 0
RECURSIVE SumR(_, _, _, _, _), MulC(_, _, _, _, _), AddC(_, _, _, _, _), SubC(_, _, _, _, _)
SumR(x, y, k, i, hi) == IF i > hi THEN 0 ELSE x[i] * y[k - i + 1] + SumR(x, y, k, i + 1, hi)
Col(x, y, k) == SumR(x, y, k, Max(1, k - Len(y) + 1), Min(k, Len(x)))
MulC(x, y, k, c, acc) == IF k > Len(x) + Len(y) THEN acc
                         ELSE LET t == (IF k < Len(x) + Len(y) THEN Col(x, y, k) ELSE 0) + c
                              IN MulC(x, y, k + 1, t \div B, Append(acc, t % B))
Mul(x, y) == IF Len(x) = 0 \/ Len(y) = 0 THEN <<>> ELSE MulC(x, y, 1, 0, <<>>)
AddC(x, y, k, c, acc) == IF k > Max(Len(x), Len(y)) THEN (IF c = 0 THEN acc ELSE Append(acc, c))
   ELSE LET t == Limb(x, k) + Limb(y, k) + c IN AddC(x, y, k + 1, t \div B, Append(acc, t % B))
Add(x, y) == AddC(x, y, 1, 0, <<>>)
SubC(x, y, k, b, acc) == IF k > Max(Len(x), Len(y)) THEN <<acc, b>>
   ELSE LET t == Limb(x, k) - Limb(y, k) - b
        IN IF t < 0 THEN SubC(x, y, k + 1, 1, Append(acc, t + B)) ELSE SubC(x, y, k + 1, 0, Append(acc, t))
Sub(x, y) == SubC(x, y, 1, 0, <<>>)[1]
GE(x, y) == SubC(x, y, 1, 0, <<>>)[2] = 0
RECURSIVE IsZeroSeq(_, _), Rep(_, _, _), FixR(_, _, _, _)
IsZeroSeq(x, i) == IF i > Len(x) THEN TRUE ELSE x[i] = 0 /\ IsZeroSeq(x, i + 1)
Rep(v, n, acc) == IF n = 0 THEN acc ELSE Rep(v, n - 1, Append(acc, v))
FixR(x, k, n, acc) == IF k > n THEN acc ELSE FixR(x, k + 1, n, Append(acc, Limb(x, k)))
\* ---- the two curves.  Bits = D*12 + R;  P as digits;  FoldC = 2^Bits mod p;  A24 = (A - 2) / 4;  N = byte length
Cv(c) == IF c = "x25519"
         THEN [bits |-> 255, d |-> 21, r |-> 3, n |-> 32, nd |-> 22, a24 |-> <<2881, 29>>, foldc |-> <<19>>,
               p |-> Append(<<4077>> \o Rep(4095, 20, <<>>), 7)]                                  \* 2^255 - 19
         ELSE [bits |-> 448, d |-> 37, r |-> 4, n |-> 56, nd |-> 38, a24 |-> <<2217, 9>>,                      \* 39081
               foldc |-> Append(<<1>> \o Rep(0, 17, <<>>), 256),                                   \* 2^224 + 1 : digit 19 = 2^(224-216)
               p |-> Rep(4095, 18, <<>>) \o <<4095 - 256>> \o Rep(4095, 18, <<>>) \o <<15>>]       \* 2^448 - 2^224 - 1
RECURSIVE HiR(_, _, _, _, _)
HiR(x, c, k, n, acc) == IF k > n THEN acc
                        ELSE HiR(x, c, k + 1, n, Append(acc, (Limb(x, c.d + k) \div (2^c.r)) + ((Limb(x, c.d + 1 + k) % (2^c.r)) * (2^(12 - c.r)))))
HiBits(x, c) == HiR(x, c, 1, Max(Len(x) - c.d, 1), <<>>)
RECURSIVE LoR(_, _, _, _)
LoR(x, c, k, acc) == IF k > c.nd THEN acc ELSE LoR(x, c, k + 1, Append(acc, IF k < c.nd THEN Limb(x, k) ELSE Limb(x, c.nd) % (2^c.r)))
LoBits(x, c) == LoR(x, c, 1, <<>>)
RECURSIVE Fold(_, _)
Fold(x, c) == LET hi == HiBits(x, c) IN IF IsZeroSeq(hi, 1) THEN LoBits(x, c) ELSE Fold(Add(LoBits(x, c), Mul(hi, c.foldc)), c)
Red(x, c) == LET y == Fold(x, c) IN FixR(IF GE(y, c.p) THEN Sub(y, c.p) ELSE y, 1, c.nd, <<>>)
FMul(a, b, c) == Red(Mul(a, b), c)
FAdd(a, b, c) == Red(Add(a, b), c)
FSub(a, b, c) == Red(Add(a, Sub(c.p, b)), c)                \* a, b canonical
\* ---- bytes
ByteBit(bs, n) == IF (n \div 8) + 1 > Len(bs) THEN 0 ELSE (bs[(n \div 8) + 1] \div (2^(n % 8))) % 2
RECURSIVE LimbFromBits(_, _, _), B2L(_, _, _, _)
LimbFromBits(bs, k, b) == IF b = 12 THEN 0 ELSE ByteBit(bs, 12 * (k - 1) + b) * (2^b) + LimbFromBits(bs, k, b + 1)
B2L(bs, k, n, acc) == IF k > n THEN acc ELSE B2L(bs, k + 1, n, Append(acc, LimbFromBits(bs, k, 0)))
BytesToLimbs(bs, c) == B2L(bs, 1, c.nd, <<>>)

C25 == Cv("x25519")
FM(a, b) == FMul(a, b, C25)
FA(a, b) == FAdd(a, b, C25)
FS(a, b) == FSub(a, b, C25)
One25 == FixR(<<1>>, 1, 22, <<>>)
Zero25 == FixR(<<0>>, 1, 22, <<>>)
Dcoef == <<2211, 1431, 2579, 1244, 1515, 2743, 472, 1044, 2637, 1792, 2048, 3721, 1913, 1943, 1856, 2252, 3699, 1791, 3627, 1742, 515, 5>>
D2 == <<345, 2863, 1062, 2489, 3030, 1390, 945, 2088, 1178, 3585, 0, 3347, 3827, 3886, 3712, 408, 3303, 3583, 3158, 3485, 1030, 2>>
BaseX == <<1306, 605, 143, 726, 2390, 2860, 1447, 2386, 1888, 716, 3177, 3525, 3542, 799, 1250, 3082, 1022, 1765, 973, 877, 361, 2>>
BaseY == <<1624, 1638, 1638, 1638, 1638, 1638, 1638, 1638, 1638, 1638, 1638, 1638, 1638, 1638, 1638, 1638, 1638, 1638, 1638, 1638, 1638, 6>>
LOrd == <<1005, 3933, 2652, 1585, 2066, 3429, 1948, 2607, 2526, 3567, 20, 0, 0, 0, 0, 0, 0, 0, 0, 0, 0, 1>>
BasePt == <<BaseX, BaseY, One25, FM(BaseX, BaseY)>>
IdPt == <<Zero25, One25, One25, Zero25>>
\* RFC 8032 5.1.4, complete for a = -1: works for doubling as well
PAddE(P, Q) == LET A1 == FM(FS(P[2], P[1]), FS(Q[2], Q[1]))
                   B1 == FM(FA(P[2], P[1]), FA(Q[2], Q[1]))
                   C1 == FM(FM(P[4], D2), Q[4])
                   D1 == FM(FA(P[3], P[3]), Q[3])
                   E == FS(B1, A1)   F == FS(D1, C1)   G == FA(D1, C1)   H == FA(B1, A1)
               IN <<FM(E, F), FM(G, H), FM(F, G), FM(E, H)>>
BitOfNat(x, i) == LET dgt == (i \div 12) + 1 IN IF dgt > Len(x) THEN 0 ELSE (x[dgt] \div (2^(i % 12))) % 2
RECURSIVE ToBytesAcc(_, _, _, _)
ToBytesAcc(x, j, n, acc) == IF j > n THEN acc
                            ELSE LET b0 == 8 * (j - 1)
                                 IN ToBytesAcc(x, j + 1, n, Append(acc, BitOfNat(x,b0) + 2*BitOfNat(x,b0+1) + 4*BitOfNat(x,b0+2) + 8*BitOfNat(x,b0+3)
                                                                + 16*BitOfNat(x,b0+4) + 32*BitOfNat(x,b0+5) + 64*BitOfNat(x,b0+6) + 128*BitOfNat(x,b0+7)))
ToBytes(x, n) == ToBytesAcc(x, 1, n, <<>>)
\* ---- arithmetic modulo the group order: acc -> (2 acc + bit) mod L, bit by bit from the top
Fix22(x) == FixR(x, 1, 22, <<>>)
DblBit(acc, bit) == LET t == Add(Add(acc, acc), <<bit>>) IN Fix22(IF GE(t, LOrd) THEN Sub(t, LOrd) ELSE t)
RECURSIVE BitsDown(_, _, _, _)
BitsDown(acc, v, b, n) == IF b < 0 THEN acc ELSE BitsDown(DblBit(acc, (v \div (2^b)) % 2), v, b - 1, n)
RECURSIVE ModLBytesR(_, _, _), ModLNatR(_, _, _)
ModLBytesR(bs, i, acc) == IF i = 0 THEN acc ELSE ModLBytesR(bs, i - 1, BitsDown(acc, bs[i], 7, 8))          \* little-endian bytes, top first
ModLBytes(bs) == ModLBytesR(bs, Len(bs), Fix22(<<0>>))
ModLNatR(x, i, acc) == IF i = 0 THEN acc ELSE ModLNatR(x, i - 1, BitsDown(acc, x[i], 11, 12))
ModLNat(x) == ModLNatR(x, Len(x), Fix22(<<0>>))
\* ---- the program
Ph == JobIn.variant = "ph"
Dom == IF JobIn.variant = "pure" THEN <<>>
       ELSE <<83, 105, 103, 69, 100, 50, 53, 53, 49, 57, 32, 110, 111, 32, 69, 100, 50, 53, 53, 49, 57, 32, 99, 111, 108, 108, 105, 115, 105, 111, 110, 115>> \o <<IF Ph THEN 1 ELSE 0, Len(JobIn.ctx)>> \o JobIn.ctx
Prog == <<"HSEED">> \o (IF Ph THEN <<"PHM">> ELSE <<>>) \o <<"MULA", "INVA", "HR", "MULR", "INVR", "HK", "FIN", "DONE">>
VARIABLES pc, res, hs, st, ws, t, blk, pt, i, acc
vars == <<pc, res, hs, st, ws, t, blk, pt, i, acc>>
Cur == Prog[pc]
R(n) == res[n]
PHM == IF Ph THEN R("PHM") ELSE JobIn.msg
HSeed == R("HSEED")
ScalarBytes == [j \in 1..32 |-> IF j = 1 THEN HSeed[1] - (HSeed[1] % 8) ELSE IF j = 32 THEN (HSeed[32] % 64) + 64 ELSE HSeed[j]]
SecretS == BytesToLimbs(ScalarBytes, C25)                     \* the clamped scalar as an integer (below 2^255)
Prefix == SubSeq(HSeed, 33, 64)
ShaIn == CASE Cur = "HSEED" -> JobIn.seed [] Cur = "PHM" -> JobIn.msg
           [] Cur = "HR" -> Dom \o Prefix \o PHM
           [] Cur = "HK" -> Dom \o R("Renc") \o R("Aenc") \o PHM
IsHash == Cur \in {"HSEED", "PHM", "HR", "HK"}
NBlocks == ShaPadLen(Len(ShaIn)) \div 128
StartBlock == /\ IsHash /\ t = -1
              /\ ws' = [j \in 1..16 |-> BlockWord(ShaIn, blk, j - 1)] /\ st' = hs /\ t' = 0 /\ UNCHANGED <<pc, res, hs, blk, pt, i, acc>>
ShaStep == /\ IsHash /\ t \in 0..79
           /\ LET w == IF t < 16 THEN ws[t + 1] ELSE NextW(ws)
              IN /\ st' = Round(st, w, t)
                 /\ ws' = IF t < 16 THEN ws ELSE [j \in 1..16 |-> IF j < 16 THEN ws[j + 1] ELSE w]
           /\ t' = t + 1 /\ UNCHANGED <<pc, res, hs, blk, pt, i, acc>>
EndBlock == /\ IsHash /\ t = 80
            /\ LET h2 == [j \in 1..8 |-> Add64(hs[j], st[j])]
               IN IF blk + 1 < NBlocks THEN hs' = h2 /\ blk' = blk + 1 /\ UNCHANGED <<pc, res>>
                  ELSE res' = (Cur :> Digest(h2)) @@ res /\ pc' = pc + 1 /\ hs' = H512 /\ blk' = 0
            /\ t' = -1 /\ UNCHANGED <<st, ws, pt, i, acc>>
\* ---- scalar multiplication of the base point, most significant bit first
Scalar == IF Cur = "MULA" THEN SecretS ELSE R("r")
MulStart == /\ Cur \in {"MULA", "MULR"} /\ i = -1
            /\ (Cur = "MULR" => TRUE)
            /\ pt' = IdPt /\ i' = 254 /\ UNCHANGED <<pc, res, hs, st, ws, t, blk, acc>>
MulStep == /\ Cur \in {"MULA", "MULR"} /\ i >= 0
           /\ LET dbl == PAddE(pt, pt) IN pt' = IF BitOfNat(Scalar, i) = 1 THEN PAddE(dbl, BasePt) ELSE dbl
           /\ IF i = 0 THEN i' = -1 /\ pc' = pc + 1 ELSE i' = i - 1 /\ pc' = pc
           /\ UNCHANGED <<res, hs, st, ws, t, blk, acc>>
\* ---- 1/Z = Z^(p-2), then the encoding
PM2 == Sub(C25.p, <<2>>)
InvStart == /\ Cur \in {"INVA", "INVR"} /\ i = -1 /\ acc = <<>>
            /\ acc' = One25 /\ i' = 254 /\ UNCHANGED <<pc, res, hs, st, ws, t, blk, pt>>
InvStep == /\ Cur \in {"INVA", "INVR"} /\ i >= 0
           /\ LET sq == FM(acc, acc) IN acc' = IF BitOfNat(PM2, i) = 1 THEN FM(sq, pt[3]) ELSE sq
           /\ i' = i - 1 /\ UNCHANGED <<pc, res, hs, st, ws, t, blk, pt>>
InvEnd == /\ Cur \in {"INVA", "INVR"} /\ i = -1 /\ acc # <<>>
          /\ LET x == FM(pt[1], acc)   y == FM(pt[2], acc)
                 yb == ToBytes(y, 32)
                 enc == [j \in 1..32 |-> IF j = 32 THEN yb[32] + 128 * BitOfNat(x, 0) ELSE yb[j]]
             IN res' = ((IF Cur = "INVA" THEN "Aenc" ELSE "Renc") :> enc) @@ res
          /\ acc' = <<>> /\ pc' = pc + 1 /\ UNCHANGED <<hs, st, ws, t, blk, pt, i>>
\* ---- r after HR (stored when the hash job finishes is not possible inside EndBlock: done lazily here)
RStore == /\ Cur = "MULR" /\ i = -1 /\ "r" \notin DOMAIN res
          /\ res' = ("r" :> ModLBytes(R("HR"))) @@ res /\ UNCHANGED <<pc, hs, st, ws, t, blk, pt, i, acc>>
Fin == /\ Cur = "FIN"
       /\ LET k == ModLBytes(R("HK"))
              S == ModLNat(Add(R("r"), Mul(k, SecretS)))
          IN res' = ("sig" :> (R("Renc") \o ToBytes(S, 32))) @@ res
       /\ pc' = pc + 1 /\ UNCHANGED <<hs, st, ws, t, blk, pt, i, acc>>
Init == pc = 1 /\ res = <<>> /\ hs = H512 /\ st = H512 /\ ws = <<>> /\ t = -1 /\ blk = 0 /\ pt = IdPt /\ i = -1 /\ acc = <<>>
Next == StartBlock \/ ShaStep \/ EndBlock \/ (("r" \in DOMAIN res \/ Cur # "MULR") /\ MulStart) \/ MulStep \/ InvStart \/ InvStep \/ InvEnd \/ RStore \/ Fin
Spec == Init /\ [][Next]_vars
ASSUME TLCSet(1, [done |-> FALSE, pk |-> FALSE, sig |-> FALSE])
Check == (Cur = "DONE") => TLCSet(1, [done |-> TRUE, pk |-> R("Aenc") = JobIn.pk, sig |-> R("sig") = JobIn.sig])
Verdict == JsonSerialize("verdict.json", TLCGet(1))
====
