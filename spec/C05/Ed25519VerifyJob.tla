---- MODULE Ed25519VerifyJob ----
(* C05, anchor.  RFC 8032 section 5.1.7 verification (Ed25519, Ed25519ctx, Ed25519ph) as an executable behaviour that establishes, by itself, the
   facts Rfc8032Verdict.tla decides on: lengths and context length, S < L, decoding of A and R exactly as section 5.1.3 prescribes (y < p, the
   square root x = (u/v)^((p+3)/8) with the sqrt(-1) correction, "x = 0 with sign bit" refused), A in the prime-order subgroup ([L]A = identity),
   k = SHA-512(dom2 || R || A || PH(M)) mod L, and both group equations [S]B = R + [k]A and [8][S]B = [8]R + [8][k]A with projective
   comparison.  job.json: [variant, pk, msg, ctx, sig, accepted]; the verdict says whether the library's answer is consistent with the RFC. *)
EXTENDS Integers, Sequences, TLC, Json, Sha512Ops
JobIn == JsonDeserialize("job.json")
B == 4096
Max(a, b) == IF a > b THEN a ELSE b
Min(a, b) == IF a < b THEN a ELSE b
Limb(x, i) == IF i <= Len(x) THEN x[i] ELSE 0
RECURSIVE SumR(_, _, _, _, _), MulC(_, _, _, _, _), AddC(_, _, _, _, _), SubC(_, _, _, _, _)
SumR(x, y, k, i, hi) == IF i > hi THEN 0 ELSE x[i] * y[k - i + 1] + SumR(x, y, k, i + 1, hi)
Col(x, y, k) == SumR(x, y, k, Max(1, k - Len(y) + 1), Min(k, Len(x)))
MulC(x, y, k, c, acc) == IF k > Len(x) + Len(y) THEN acc
                         ELSE LET t == (IF k < Len(x) + Len(y) THEN Col(x, y, k) ELSE 0) + c
                              IN MulC(x, y, k + 1, t \div B, Append(acc, t % B))
Mul(x, y) == IF Len(x) = 0 \/ Len(y) = 0 THEN <<>> ELSE MulC(x, y, 1, 0, <<>>)
AddC(x, y, k, c, acc) == IF k > Max(Len(x), Len(y)) THEN (IF c = 0 THEN acc ELSE Append(acc, c))
   ELSE LET t == Limb(x, k) + Limb(y, k) + c IN AddC(x, y, k + 1, t \div B, Append(acc, t % B))
Add(x, y) == AddC(x, y, 1, 0, <<>>)
SubC(x, y, k, b, acc) == IF k > Max(Len(x), Len(y)) THEN <<acc, b>>
   ELSE LET t == Limb(x, k) - Limb(y, k) - b
        IN IF t < 0 THEN SubC(x, y, k + 1, 1, Append(acc, t + B)) ELSE SubC(x, y, k + 1, 0, Append(acc, t))
Sub(x, y) == SubC(x, y, 1, 0, <<>>)[1]
GE(x, y) == SubC(x, y, 1, 0, <<>>)[2] = 0
RECURSIVE IsZeroSeq(_, _), Rep(_, _, _), FixR(_, _, _, _)
IsZeroSeq(x, i) == IF i > Len(x) THEN TRUE ELSE x[i] = 0 /\ IsZeroSeq(x, i + 1)
Rep(v, n, acc) == IF n = 0 THEN acc ELSE Rep(v, n - 1, Append(acc, v))
FixR(x, k, n, acc) == IF k > n THEN acc ELSE FixR(x, k + 1, n, Append(acc, Limb(x, k)))
\* ---- the two curves.  Bits = D*12 + R;  P as digits;  FoldC = 2^Bits mod p;  A24 = (A - 2) / 4;  N = byte length
Cv(c) == IF c = "x25519"
         THEN [bits |-> 255, d |-> 21, r |-> 3, n |-> 32, nd |-> 22, a24 |-> <<2881, 29>>, foldc |-> <<19>>,
               p |-> Append(<<4077>> \o Rep(4095, 20, <<>>), 7)]                                  \* 2^255 - 19
         ELSE [bits |-> 448, d |-> 37, r |-> 4, n |-> 56, nd |-> 38, a24 |-> <<2217, 9>>,                      \* 39081
               foldc |-> Append(<<1>> \o Rep(0, 17, <<>>), 256),                                   \* 2^224 + 1 : digit 19 = 2^(224-216)
               p |-> Rep(4095, 18, <<>>) \o <<4095 - 256>> \o Rep(4095, 18, <<>>) \o <<15>>]       \* 2^448 - 2^224 - 1
RECURSIVE HiR(_, _, _, _, _)
HiR(x, c, k, n, acc) == IF k > n THEN acc
                        ELSE HiR(x, c, k + 1, n, Append(acc, (Limb(x, c.d + k) \div (2^c.r)) + ((Limb(x, c.d + 1 + k) % (2^c.r)) * (2^(12 - c.r)))))
HiBits(x, c) == HiR(x, c, 1, Max(Len(x) - c.d, 1), <<>>)
RECURSIVE LoR(_, _, _, _)
LoR(x, c, k, acc) == IF k > c.nd THEN acc ELSE LoR(x, c, k + 1, Append(acc, IF k < c.nd THEN Limb(x, k) ELSE Limb(x, c.nd) % (2^c.r)))
LoBits(x, c) == LoR(x, c, 1, <<>>)
RECURSIVE Fold(_, _)
Fold(x, c) == LET hi == HiBits(x, c) IN IF IsZeroSeq(hi, 1) THEN LoBits(x, c) ELSE Fold(Add(LoBits(x, c), Mul(hi, c.foldc)), c)
Red(x, c) == LET y == Fold(x, c) IN FixR(IF GE(y, c.p) THEN Sub(y, c.p) ELSE y, 1, c.nd, <<>>)
FMul(a, b, c) == Red(Mul(a, b), c)
FAdd(a, b, c) == Red(Add(a, b), c)
FSub(a, b, c) == Red(Add(a, Sub(c.p, b)), c)                \* a, b canonical
\* ---- bytes
ByteBit(bs, n) == IF (n \div 8) + 1 > Len(bs) THEN 0 ELSE (bs[(n \div 8) + 1] \div (2^(n % 8))) % 2
RECURSIVE LimbFromBits(_, _, _), B2L(_, _, _, _)
LimbFromBits(bs, k, b) == IF b = 12 THEN 0 ELSE ByteBit(bs, 12 * (k - 1) + b) * (2^b) + LimbFromBits(bs, k, b + 1)
B2L(bs, k, n, acc) == IF k > n THEN acc ELSE B2L(bs, k + 1, n, Append(acc, LimbFromBits(bs, k, 0)))
BytesToLimbs(bs, c) == B2L(bs, 1, c.nd, <<>>)

C25 == Cv("x25519")
FM(a, b) == FMul(a, b, C25)
FA(a, b) == FAdd(a, b, C25)
FS(a, b) == FSub(a, b, C25)
One25 == FixR(<<1>>, 1, 22, <<>>)
Zero25 == FixR(<<0>>, 1, 22, <<>>)
Dcoef == <<2211, 1431, 2579, 1244, 1515, 2743, 472, 1044, 2637, 1792, 2048, 3721, 1913, 1943, 1856, 2252, 3699, 1791, 3627, 1742, 515, 5>>
D2 == <<345, 2863, 1062, 2489, 3030, 1390, 945, 2088, 1178, 3585, 0, 3347, 3827, 3886, 3712, 408, 3303, 3583, 3158, 3485, 1030, 2>>
BaseX == <<1306, 605, 143, 726, 2390, 2860, 1447, 2386, 1888, 716, 3177, 3525, 3542, 799, 1250, 3082, 1022, 1765, 973, 877, 361, 2>>
BaseY == <<1624, 1638, 1638, 1638, 1638, 1638, 1638, 1638, 1638, 1638, 1638, 1638, 1638, 1638, 1638, 1638, 1638, 1638, 1638, 1638, 1638, 6>>
LOrd == <<1005, 3933, 2652, 1585, 2066, 3429, 1948, 2607, 2526, 3567, 20, 0, 0, 0, 0, 0, 0, 0, 0, 0, 0, 1>>
BasePt == <<BaseX, BaseY, One25, FM(BaseX, BaseY)>>
IdPt == <<Zero25, One25, One25, Zero25>>
\* RFC 8032 5.1.4, complete for a = -1: works for doubling as well
PAddE(P, Q) == LET A1 == FM(FS(P[2], P[1]), FS(Q[2], Q[1]))
                   B1 == FM(FA(P[2], P[1]), FA(Q[2], Q[1]))
                   C1 == FM(FM(P[4], D2), Q[4])
                   D1 == FM(FA(P[3], P[3]), Q[3])
                   E == FS(B1, A1)   F == FS(D1, C1)   G == FA(D1, C1)   H == FA(B1, A1)
               IN <<FM(E, F), FM(G, H), FM(F, G), FM(E, H)>>
BitOfNat(x, i) == LET dgt == (i \div 12) + 1 IN IF dgt > Len(x) THEN 0 ELSE (x[dgt] \div (2^(i % 12))) % 2
RECURSIVE ToBytesAcc(_, _, _, _)
ToBytesAcc(x, j, n, acc) == IF j > n THEN acc
                            ELSE LET b0 == 8 * (j - 1)
                                 IN ToBytesAcc(x, j + 1, n, Append(acc, BitOfNat(x,b0) + 2*BitOfNat(x,b0+1) + 4*BitOfNat(x,b0+2) + 8*BitOfNat(x,b0+3)
                                                                + 16*BitOfNat(x,b0+4) + 32*BitOfNat(x,b0+5) + 64*BitOfNat(x,b0+6) + 128*BitOfNat(x,b0+7)))
ToBytes(x, n) == ToBytesAcc(x, 1, n, <<>>)
\* ---- arithmetic modulo the group order: acc -> (2 acc + bit) mod L, bit by bit from the top
Fix22(x) == FixR(x, 1, 22, <<>>)
DblBit(acc, bit) == LET t == Add(Add(acc, acc), <<bit>>) IN Fix22(IF GE(t, LOrd) THEN Sub(t, LOrd) ELSE t)
RECURSIVE BitsDown(_, _, _, _)
BitsDown(acc, v, b, n) == IF b < 0 THEN acc ELSE BitsDown(DblBit(acc, (v \div (2^b)) % 2), v, b - 1, n)
RECURSIVE ModLBytesR(_, _, _), ModLNatR(_, _, _)
ModLBytesR(bs, i, acc) == IF i = 0 THEN acc ELSE ModLBytesR(bs, i - 1, BitsDown(acc, bs[i], 7, 8))          \* little-endian bytes, top first
ModLBytes(bs) == ModLBytesR(bs, Len(bs), Fix22(<<0>>))
ModLNatR(x, i, acc) == IF i = 0 THEN acc ELSE ModLNatR(x, i - 1, BitsDown(acc, x[i], 11, 12))
ModLNat(x) == ModLNatR(x, Len(x), Fix22(<<0>>))

SqrtM1 == <<176, 234, 1866, 434, 1262, 1932, 4068, 2770, 2054, 1073, 1839, 3450, 3579, 2451, 3328, 692, 3851, 3101, 79, 584, 2947, 2>>
V == INSTANCE Rfc8032Verdict
Pk == JobIn.pk
Sig == JobIn.sig
LenOk == Len(Pk) = 32 /\ Len(Sig) = 64
CtxOk == Len(JobIn.ctx) <= 255 /\ (JobIn.variant = "pure" => Len(JobIn.ctx) = 0)
Ph == JobIn.variant = "ph"
Dom == IF JobIn.variant = "pure" THEN <<>>
       ELSE <<83, 105, 103, 69, 100, 50, 53, 53, 49, 57, 32, 110, 111, 32, 69, 100, 50, 53, 53, 49, 57, 32, 99, 111, 108, 108, 105, 115, 105, 111, 110, 115>> \o <<IF Ph THEN 1 ELSE 0, Len(JobIn.ctx)>> \o JobIn.ctx
Renc == SubSeq(Sig, 1, 32)
Sbytes == SubSeq(Sig, 33, 64)
SNat == BytesToLimbs(Sbytes, C25)                 \* 256-bit value in 22 digits
SLess == ~GE(SNat, LOrd) /\ Sbytes[32] < 32       \* below L (L < 2^253)
\* ---- the program
Prog == (IF Ph THEN <<"PHM">> ELSE <<>>) \o <<"DECA", "DECR", "HK", "MULS", "MULK", "MULL", "FIN", "DONE">>
VARIABLES pc, res, hs, st, ws, t, blk, pt, base, i, acc, sub
vars == <<pc, res, hs, st, ws, t, blk, pt, base, i, acc, sub>>
Cur == Prog[pc]
R(n) == res[n]
PHM == IF Ph THEN R("PHM") ELSE JobIn.msg
ShaIn == CASE Cur = "PHM" -> JobIn.msg [] Cur = "HK" -> Dom \o Renc \o Pk \o PHM
IsHash == Cur \in {"PHM", "HK"}
NBlocks == ShaPadLen(Len(ShaIn)) \div 128
AKeep == <<pt, base, i, acc, sub>>
StartBlock == /\ IsHash /\ t = -1
              /\ ws' = [j \in 1..16 |-> BlockWord(ShaIn, blk, j - 1)] /\ st' = hs /\ t' = 0 /\ UNCHANGED <<pc, res, hs, blk, AKeep>>
ShaStep == /\ IsHash /\ t \in 0..79
           /\ LET w == IF t < 16 THEN ws[t + 1] ELSE NextW(ws)
              IN st' = Round(st, w, t) /\ ws' = IF t < 16 THEN ws ELSE [j \in 1..16 |-> IF j < 16 THEN ws[j + 1] ELSE w]
           /\ t' = t + 1 /\ UNCHANGED <<pc, res, hs, blk, AKeep>>
EndBlock == /\ IsHash /\ t = 80
            /\ LET h2 == [j \in 1..8 |-> Add64(hs[j], st[j])]
               IN IF blk + 1 < NBlocks THEN hs' = h2 /\ blk' = blk + 1 /\ UNCHANGED <<pc, res>>
                  ELSE res' = (Cur :> Digest(h2)) @@ res /\ pc' = pc + 1 /\ hs' = H512 /\ blk' = 0
            /\ t' = -1 /\ UNCHANGED <<st, ws, AKeep>>
HKeep == <<hs, st, ws, t, blk>>
\* ---- point decoding (5.1.3): candidate root x = u v^3 (u v^7)^((p-5)/8)
EncOf == IF Cur = "DECA" THEN Pk ELSE Renc
YOf(e) == BytesToLimbs([j \in 1..32 |-> IF j = 32 THEN e[32] % 128 ELSE e[j]], C25)
SignOf(e) == e[32] \div 128
Exp58 == LET pm5 == Sub(C25.p, <<5>>) IN [j \in 0..251 |-> BitOfNat(pm5, j + 3)]           \* bits of (p - 5) / 8
DecStart == /\ Cur \in {"DECA", "DECR"} /\ sub = "idle"
            /\ LET y == YOf(EncOf)
                   yy == FM(y, y)
                   u == FS(yy, One25)
                   v == FA(FM(Dcoef, yy), One25)
                   v3 == FM(FM(v, v), v)
                   uv7 == FM(u, FM(FM(v3, v3), v))
               IN acc' = One25 /\ base' = <<uv7, u, v, v3>> /\ i' = 251 /\ sub' = "exp"
            /\ UNCHANGED <<pc, res, HKeep, pt>>
DecStep == /\ Cur \in {"DECA", "DECR"} /\ sub = "exp" /\ i >= 0
           /\ LET sq == FM(acc, acc) IN acc' = IF Exp58[i] = 1 THEN FM(sq, base[1]) ELSE sq
           /\ i' = i - 1 /\ UNCHANGED <<pc, res, HKeep, pt, base, sub>>
DecEnd == /\ Cur \in {"DECA", "DECR"} /\ sub = "exp" /\ i < 0
          /\ LET e == EncOf   y == YOf(e)   u == base[2]   v == base[3]
                 x0 == FM(FM(u, base[4]), acc)
                 vxx == FM(v, FM(x0, x0))
                 xr == IF vxx = u THEN x0 ELSE IF vxx = FS(Zero25, u) THEN FM(x0, SqrtM1) ELSE <<>>
                 canon == Len(e) = 32 /\ ~GE(YOf(e), C25.p) /\ xr # <<>> /\ ~(IsZeroSeq(xr, 1) /\ SignOf(e) = 1)
                 x == IF xr = <<>> THEN Zero25 ELSE IF BitOfNat(xr, 0) = SignOf(e) THEN xr ELSE FS(Zero25, xr)
                 nm == IF Cur = "DECA" THEN "A" ELSE "Rp"
             IN res' = (nm :> <<x, y, One25, FM(x, y)>>) @@ ((nm \o "canon") :> canon) @@ res
          /\ sub' = "idle" /\ acc' = <<>> /\ pc' = pc + 1 /\ UNCHANGED <<HKeep, pt, base, i>>
\* ---- scalar multiplications: [S]B, [k]A, [L]A
ScalarOf == CASE Cur = "MULS" -> SNat [] Cur = "MULK" -> R("k") [] Cur = "MULL" -> LOrd
BaseOf == IF Cur = "MULS" THEN BasePt ELSE R("A")
KStore == /\ Cur = "MULS" /\ sub = "idle" /\ "k" \notin DOMAIN res
          /\ res' = ("k" :> ModLBytes(R("HK"))) @@ res /\ UNCHANGED <<pc, HKeep, AKeep>>
MulStart == /\ Cur \in {"MULS", "MULK", "MULL"} /\ sub = "idle" /\ "k" \in DOMAIN res
            /\ pt' = IdPt /\ i' = 255 /\ sub' = "mul" /\ UNCHANGED <<pc, res, HKeep, base, acc>>
MulStep == /\ Cur \in {"MULS", "MULK", "MULL"} /\ sub = "mul" /\ i >= 0
           /\ LET dbl == PAddE(pt, pt) IN pt' = IF BitOfNat(ScalarOf, i) = 1 THEN PAddE(dbl, BaseOf) ELSE dbl
           /\ i' = i - 1 /\ UNCHANGED <<pc, res, HKeep, base, acc, sub>>
MulEnd == /\ Cur \in {"MULS", "MULK", "MULL"} /\ sub = "mul" /\ i < 0
          /\ res' = (Cur :> pt) @@ res /\ sub' = "idle" /\ pc' = pc + 1 /\ UNCHANGED <<HKeep, pt, base, i, acc>>
\* ---- projective equality and the facts
PEq(P, Q) == FM(P[1], Q[3]) = FM(Q[1], P[3]) /\ FM(P[2], Q[3]) = FM(Q[2], P[3])
Times8(P) == LET d1 == PAddE(P, P)   d2 == PAddE(d1, d1) IN PAddE(d2, d2)
Fin == /\ Cur = "FIN"
       /\ LET rhs == PAddE(R("Rp"), R("MULK"))
              lhs == R("MULS")
          IN res' = ("facts" :> [len_ok |-> TRUE, ctx_ok |-> TRUE, s_less |-> SLess, a_canon |-> R("Acanon"), r_canon |-> R("Rpcanon"),
                                  a_prime |-> PEq(R("MULL"), IdPt), cofactorless |-> PEq(lhs, rhs), cofactored |-> PEq(Times8(lhs), Times8(rhs))]) @@ res
       /\ pc' = pc + 1 /\ UNCHANGED <<HKeep, AKeep>>
Init == /\ pc = 1 /\ res = <<>> /\ hs = H512 /\ st = H512 /\ ws = <<>> /\ t = -1 /\ blk = 0
        /\ pt = IdPt /\ base = <<>> /\ i = -1 /\ acc = <<>> /\ sub = "idle"
\* (wrong lengths / an over-long context are decided by the ASSUME below without running the program: its steps would index past the short signature)
Next == (Len(JobIn.pk) = 32 /\ Len(JobIn.sig) = 64 /\ Len(JobIn.ctx) <= 255 /\ (JobIn.variant = "pure" => Len(JobIn.ctx) = 0))
        /\ (StartBlock \/ ShaStep \/ EndBlock \/ DecStart \/ DecStep \/ DecEnd \/ KStore \/ MulStart \/ MulStep \/ MulEnd \/ Fin)
Spec == Init /\ [][Next]_vars
ASSUME TLCSet(1, [done |-> FALSE, consistent |-> FALSE, verdict |-> "none", facts |-> <<>>])
\* wrong lengths or an over-long context are decided without running anything
Early == ~LenOk \/ ~CtxOk
ASSUME Early => TLCSet(1, [done |-> TRUE, consistent |-> ~JobIn.accepted, verdict |-> "reject", facts |-> <<>>])
Check == (~Early /\ Cur = "DONE") => LET f == R("facts") IN TLCSet(1, [done |-> TRUE, consistent |-> V!Consistent(f, JobIn.accepted), verdict |-> V!Verdict(f), facts |-> f])
Verdict == JsonSerialize("verdict.json", TLCGet(1))
====
