---- MODULE Ed448SignJob ----
(* C05, anchor.  RFC 8032 section 5.2 key generation and signing (Ed448, Ed448ph) as an executable behaviour: SHAKE256 (KeccakOps.tla, three
   actions per round), clamping, scalar multiplication of the base point on edwards448 in projective coordinates with the complete addition law
   of section 5.2.4 (one action per scalar bit), inversion and point encoding, reduction of the 912-bit hash values modulo the group order,
   S = (r + k s) mod L.  Field arithmetic is on base-4096 digit sequences with the fold 2^448 = 2^224 + 1 (mod p).
   job.json: [variant: "pure" | "ph", seed, msg, ctx, pk, sig]; the verdict says whether the library's public key and signature are the RFC's. *)
EXTENDS Integers, Sequences, TLC, Json, KeccakOps
JobIn == JsonDeserialize("job.json")
B == 4096
Max(a, b) == IF a > b THEN a ELSE b
Min(a, b) == IF a < b THEN a ELSE b
Limb(x, i) == IF i <= Len(x) THEN x[i] ELSE 0
RECURSIVE SumR(_, _, _, _, _), MulC(_, _, _, _, _), AddC(_, _, _, _, _), SubC(_, _, _, _, _)
SumR(x, y, k, i, hi) == IF i > hi THEN 0 ELSE x[i] * y[k - i + 1] + SumR(x, y, k, i + 1, hi)
Col(x, y, k) == SumR(x, y, k, Max(1, k - Len(y) + 1), Min(k, Len(x)))
MulC(x, y, k, c, acc) == IF k > Len(x) + Len(y) THEN acc
                         ELSE LET t == (IF k < Len(x) + Len(y) THEN Col(x, y, k) ELSE 0) + c
                              IN MulC(x, y, k + 1, t \div B, Append(acc, t % B))
Mul(x, y) == IF Len(x) = 0 \/ Len(y) = 0 THEN <<>> ELSE MulC(x, y, 1, 0, <<>>)
AddC(x, y, k, c, acc) == IF k > Max(Len(x), Len(y)) THEN (IF c = 0 THEN acc ELSE Append(acc, c))
   ELSE LET t == Limb(x, k) + Limb(y, k) + c IN AddC(x, y, k + 1, t \div B, Append(acc, t % B))
Add(x, y) == AddC(x, y, 1, 0, <<>>)
SubC(x, y, k, b, acc) == IF k > Max(Len(x), Len(y)) THEN <<acc, b>>
   ELSE LET t == Limb(x, k) - Limb(y, k) - b
        IN IF t < 0 THEN SubC(x, y, k + 1, 1, Append(acc, t + B)) ELSE SubC(x, y, k + 1, 0, Append(acc, t))
Sub(x, y) == SubC(x, y, 1, 0, <<>>)[1]
GE(x, y) == SubC(x, y, 1, 0, <<>>)[2] = 0
RECURSIVE IsZeroSeq(_, _), Rep(_, _, _), FixR(_, _, _, _)
IsZeroSeq(x, i) == IF i > Len(x) THEN TRUE ELSE x[i] = 0 /\ IsZeroSeq(x, i + 1)
Rep(v, n, acc) == IF n = 0 THEN acc ELSE Rep(v, n - 1, Append(acc, v))
FixR(x, k, n, acc) == IF k > n THEN acc ELSE FixR(x, k + 1, n, Append(acc, Limb(x, k)))
\* ---- the two curves.  Bits = D*12 + R;  P as digits;  FoldC = 2^Bits mod p;  A24 = (A - 2) / 4;  N = byte length
Cv(c) == IF c = "x25519"
         THEN [bits |-> 255, d |-> 21, r |-> 3, n |-> 32, nd |-> 22, a24 |-> <<2881, 29>>, foldc |-> <<19>>,
               p |-> Append(<<4077>> \o Rep(4095, 20, <<>>), 7)]                                  \* 2^255 - 19
         ELSE [bits |-> 448, d |-> 37, r |-> 4, n |-> 56, nd |-> 38, a24 |-> <<2217, 9>>,                      \* 39081
               foldc |-> Append(<<1>> \o Rep(0, 17, <<>>), 256),                                   \* 2^224 + 1 : digit 19 = 2^(224-216)
               p |-> Rep(4095, 18, <<>>) \o <<4095 - 256>> \o Rep(4095, 18, <<>>) \o <<15>>]       \* 2^448 - 2^224 - 1
RECURSIVE HiR(_, _, _, _, _)
HiR(x, c, k, n, acc) == IF k > n THEN acc
                        ELSE HiR(x, c, k + 1, n, Append(acc, (Limb(x, c.d + k) \div (2^c.r)) + ((Limb(x, c.d + 1 + k) % (2^c.r)) * (2^(12 - c.r)))))
HiBits(x, c) == HiR(x, c, 1, Max(Len(x) - c.d, 1), <<>>)
RECURSIVE LoR(_, _, _, _)
LoR(x, c, k, acc) == IF k > c.nd THEN acc ELSE LoR(x, c, k + 1, Append(acc, IF k < c.nd THEN Limb(x, k) ELSE Limb(x, c.nd) % (2^c.r)))
LoBits(x, c) == LoR(x, c, 1, <<>>)
RECURSIVE Fold(_, _)
Fold(x, c) == LET hi == HiBits(x, c) IN IF IsZeroSeq(hi, 1) THEN LoBits(x, c) ELSE Fold(Add(LoBits(x, c), Mul(hi, c.foldc)), c)
Red(x, c) == LET y == Fold(x, c) IN FixR(IF GE(y, c.p) THEN Sub(y, c.p) ELSE y, 1, c.nd, <<>>)
FMul(a, b, c) == Red(Mul(a, b), c)
FAdd(a, b, c) == Red(Add(a, b), c)
FSub(a, b, c) == Red(Add(a, Sub(c.p, b)), c)                \* a, b canonical
\* ---- bytes
ByteBit(bs, n) == IF (n \div 8) + 1 > Len(bs) THEN 0 ELSE (bs[(n \div 8) + 1] \div (2^(n % 8))) % 2
RECURSIVE LimbFromBits(_, _, _), B2L(_, _, _, _)
LimbFromBits(bs, k, b) == IF b = 12 THEN 0 ELSE ByteBit(bs, 12 * (k - 1) + b) * (2^b) + LimbFromBits(bs, k, b + 1)
B2L(bs, k, n, acc) == IF k > n THEN acc ELSE B2L(bs, k + 1, n, Append(acc, LimbFromBits(bs, k, 0)))
BytesToLimbs(bs, c) == B2L(bs, 1, c.nd, <<>>)


C448 == Cv("x448")
FM(a, b) == FMul(a, b, C448)
FA(a, b) == FAdd(a, b, C448)
FS(a, b) == FSub(a, b, C448)
ND == 38
One448 == FixR(<<1>>, 1, ND, <<>>)
Zero448 == FixR(<<0>>, 1, ND, <<>>)
Dcoef == <<1878, 4086, 4095, 4095, 4095, 4095, 4095, 4095, 4095, 4095, 4095, 4095, 4095, 4095, 4095, 4095, 4095, 4095, 3839, 4095, 4095, 4095, 4095, 4095, 4095, 4095, 4095, 4095, 4095, 4095, 4095, 4095, 4095, 4095, 4095, 4095, 4095, 15>>
BaseX == <<94, 204, 3015, 2690, 1574, 2274, 147, 2224, 225, 952, 323, 1617, 2742, 3954, 3610, 298, 1124, 3386, 1187, 3634, 2669, 1662, 3863, 1136, 1392, 326, 2718, 877, 703, 2658, 3349, 545, 3565, 3792, 1643, 1804, 3865, 4>>
BaseY == <<2580, 783, 3058, 1941, 2056, 2777, 1992, 1261, 812, 3025, 1277, 924, 1660, 462, 1023, 941, 727, 2572, 3589, 2497, 1912, 1032, 920, 1738, 883, 3751, 587, 3190, 1737, 885, 1568, 2183, 3108, 2923, 366, 1127, 2367, 6>>
LOrd == <<1267, 1412, 683, 3113, 888, 1362, 1423, 2268, 626, 1740, 33, 873, 3798, 1178, 3803, 3140, 1001, 3234, 3964, 4095, 4095, 4095, 4095, 4095, 4095, 4095, 4095, 4095, 4095, 4095, 4095, 4095, 4095, 4095, 4095, 4095, 4095, 3>>
BasePt == <<BaseX, BaseY, One448>>
IdPt == <<Zero448, One448, One448>>
\* RFC 8032 5.2.4 (a = 1, d non-square: complete, so it doubles as well)
PAddE(P, Q) == LET A1 == FM(P[3], Q[3])   B1 == FM(A1, A1)   C1 == FM(P[1], Q[1])   D1 == FM(P[2], Q[2])
                   E == FM(Dcoef, FM(C1, D1))   F == FS(B1, E)   G == FA(B1, E)
                   H == FM(FA(P[1], P[2]), FA(Q[1], Q[2]))
               IN <<FM(A1, FM(F, FS(FS(H, C1), D1))), FM(A1, FM(G, FS(D1, C1))), FM(F, G)>>
BitOfNat(x, i) == LET dgt == (i \div 12) + 1 IN IF dgt > Len(x) THEN 0 ELSE (x[dgt] \div (2^(i % 12))) % 2
RECURSIVE ToBytesAcc(_, _, _, _)
ToBytesAcc(x, j, n, acc) == IF j > n THEN acc
                            ELSE LET b0 == 8 * (j - 1)
                                 IN ToBytesAcc(x, j + 1, n, Append(acc, BitOfNat(x,b0) + 2*BitOfNat(x,b0+1) + 4*BitOfNat(x,b0+2) + 8*BitOfNat(x,b0+3)
                                                                + 16*BitOfNat(x,b0+4) + 32*BitOfNat(x,b0+5) + 64*BitOfNat(x,b0+6) + 128*BitOfNat(x,b0+7)))
ToBytes(x, n) == ToBytesAcc(x, 1, n, <<>>)
FixN(x) == FixR(x, 1, ND, <<>>)
DblBit(acc, bit) == LET t == Add(Add(acc, acc), <<bit>>) IN FixN(IF GE(t, LOrd) THEN Sub(t, LOrd) ELSE t)
RECURSIVE BitsDown(_, _, _)
BitsDown(acc, v, b) == IF b < 0 THEN acc ELSE BitsDown(DblBit(acc, (v \div (2^b)) % 2), v, b - 1)
RECURSIVE ModLBytesR(_, _, _), ModLNatR(_, _, _)
ModLBytesR(bs, i, acc) == IF i = 0 THEN acc ELSE ModLBytesR(bs, i - 1, BitsDown(acc, bs[i], 7))
ModLBytes(bs) == ModLBytesR(bs, Len(bs), FixN(<<0>>))
ModLNatR(x, i, acc) == IF i = 0 THEN acc ELSE ModLNatR(x, i - 1, BitsDown(acc, x[i], 11))
ModLNat(x) == ModLNatR(x, Len(x), FixN(<<0>>))
\* ---- the program
Ph == JobIn.variant = "ph"
Dom == <<83, 105, 103, 69, 100, 52, 52, 56>> \o <<IF Ph THEN 1 ELSE 0, Len(JobIn.ctx)>> \o JobIn.ctx          \* "SigEd448" || F || len(C) || C
Prog == <<"HSEED">> \o (IF Ph THEN <<"PHM">> ELSE <<>>) \o <<"MULA", "INVA", "HR", "MULR", "INVR", "HK", "FIN", "DONE">>
VARIABLES pc, res, A, r, ph, blk, outacc, pt, i, acc
vars == <<pc, res, A, r, ph, blk, outacc, pt, i, acc>>
Cur == Prog[pc]
R(n) == res[n]
PHM == IF Ph THEN R("PHM") ELSE JobIn.msg
HSeed == R("HSEED")
ScalarBytes == [j \in 1..57 |-> IF j = 1 THEN HSeed[1] - (HSeed[1] % 4) ELSE IF j = 56 THEN (HSeed[56] % 128) + 128 ELSE IF j = 57 THEN 0 ELSE HSeed[j]]
SecretS == B2L(ScalarBytes, 1, ND, <<>>)
Prefix == SubSeq(HSeed, 58, 114)
ShaIn == CASE Cur = "HSEED" -> JobIn.seed [] Cur = "PHM" -> JobIn.msg
           [] Cur = "HR" -> Dom \o Prefix \o PHM
           [] Cur = "HK" -> Dom \o R("Renc") \o R("Aenc") \o PHM
OutLen == IF Cur = "PHM" THEN 64 ELSE 114
IsHash == Cur \in {"HSEED", "PHM", "HR", "HK"}
Rate == 136
NBlocks == PadLen(Len(ShaIn), Rate) \div Rate
Keep2 == <<pt, i, acc>>
HStart == /\ IsHash /\ ph = "start"
          /\ A' = AbsorbBlock(ZeroState, ShaIn, 31, Rate, 0) /\ ph' = "theta" /\ r' = 1 /\ blk' = 0 /\ outacc' = <<>> /\ UNCHANGED <<pc, res, Keep2>>
HTheta == IsHash /\ ph = "theta" /\ A' = StepTheta(A) /\ ph' = "rhopi" /\ UNCHANGED <<r, blk, outacc, pc, res, Keep2>>
HRhoPi == IsHash /\ ph = "rhopi" /\ A' = StepRhoPi(A) /\ ph' = "chi" /\ UNCHANGED <<r, blk, outacc, pc, res, Keep2>>
HChi == /\ IsHash /\ ph = "chi" /\ A' = StepChiIota(A, r)
        /\ IF r = 24 THEN r' = 1 /\ ph' = "permuted" ELSE r' = r + 1 /\ ph' = "theta"
        /\ UNCHANGED <<blk, outacc, pc, res, Keep2>>
HAfter == /\ IsHash /\ ph = "permuted"
          /\ IF blk + 1 < NBlocks
             THEN A' = AbsorbBlock(A, ShaIn, 31, Rate, blk + 1) /\ blk' = blk + 1 /\ ph' = "theta" /\ UNCHANGED <<r, outacc, pc, res>>
             ELSE LET o == outacc \o StateBytes(A, Rate) IN
                  IF Len(o) >= OutLen THEN /\ res' = (Cur :> SubSeq(o, 1, OutLen)) @@ res /\ pc' = pc + 1 /\ ph' = "start" /\ outacc' = <<>> /\ blk' = 0
                                           /\ UNCHANGED <<A, r>>
                  ELSE outacc' = o /\ ph' = "theta" /\ UNCHANGED <<A, r, blk, pc, res>>
          /\ UNCHANGED Keep2
HKeep == <<A, r, ph, blk, outacc>>
Scalar == IF Cur = "MULA" THEN SecretS ELSE R("r")
MulStart == /\ Cur \in {"MULA", "MULR"} /\ i = -1 /\ (Cur = "MULR" => "r" \in DOMAIN res)
            /\ pt' = IdPt /\ i' = 447 /\ UNCHANGED <<pc, res, HKeep, acc>>
MulStep == /\ Cur \in {"MULA", "MULR"} /\ i >= 0
           /\ LET dbl == PAddE(pt, pt) IN pt' = IF BitOfNat(Scalar, i) = 1 THEN PAddE(dbl, BasePt) ELSE dbl
           /\ IF i = 0 THEN i' = -1 /\ pc' = pc + 1 ELSE i' = i - 1 /\ pc' = pc
           /\ UNCHANGED <<res, HKeep, acc>>
PM2 == Sub(C448.p, <<2>>)
InvStart == /\ Cur \in {"INVA", "INVR"} /\ i = -1 /\ acc = <<>>
            /\ acc' = One448 /\ i' = 447 /\ UNCHANGED <<pc, res, HKeep, pt>>
InvStep == /\ Cur \in {"INVA", "INVR"} /\ i >= 0
           /\ LET sq == FM(acc, acc) IN acc' = IF BitOfNat(PM2, i) = 1 THEN FM(sq, pt[3]) ELSE sq
           /\ i' = i - 1 /\ UNCHANGED <<pc, res, HKeep, pt>>
InvEnd == /\ Cur \in {"INVA", "INVR"} /\ i = -1 /\ acc # <<>>
          /\ LET x == FM(pt[1], acc)   y == FM(pt[2], acc)
                 enc == ToBytes(y, 56) \o <<128 * BitOfNat(x, 0)>>
             IN res' = ((IF Cur = "INVA" THEN "Aenc" ELSE "Renc") :> enc) @@ res
          /\ acc' = <<>> /\ pc' = pc + 1 /\ UNCHANGED <<HKeep, pt, i>>
RStore == /\ Cur = "MULR" /\ i = -1 /\ "r" \notin DOMAIN res
          /\ res' = ("r" :> ModLBytes(R("HR"))) @@ res /\ UNCHANGED <<pc, HKeep, pt, i, acc>>
Fin == /\ Cur = "FIN"
       /\ LET k == ModLBytes(R("HK"))
              S == ModLNat(Add(R("r"), Mul(k, SecretS)))
          IN res' = ("sig" :> (R("Renc") \o ToBytes(S, 57))) @@ res
       /\ pc' = pc + 1 /\ UNCHANGED <<HKeep, pt, i, acc>>
Init == pc = 1 /\ res = <<>> /\ A = ZeroState /\ r = 1 /\ ph = "start" /\ blk = 0 /\ outacc = <<>> /\ pt = IdPt /\ i = -1 /\ acc = <<>>
Next == HStart \/ HTheta \/ HRhoPi \/ HChi \/ HAfter \/ MulStart \/ MulStep \/ InvStart \/ InvStep \/ InvEnd \/ RStore \/ Fin
Spec == Init /\ [][Next]_vars
ASSUME TLCSet(1, [done |-> FALSE, pk |-> FALSE, sig |-> FALSE])
Check == (Cur = "DONE") => TLCSet(1, [done |-> TRUE, pk |-> R("Aenc") = JobIn.pk, sig |-> R("sig") = JobIn.sig])
Verdict == JsonSerialize("verdict.json", TLCGet(1))
====
