---- MODULE Rfc8032Verdict ----
(* C05.  What RFC 8032 verification (sections 5.1.7 / 5.2.7, with the decoding rules of 5.1.3 / 5.2.3) decides, as a function of
   facts about the inputs that an implementation-independent transcription of the RFC establishes:
     len_ok, ctx_ok   lengths of key / signature; context at most 255 octets (and empty for pure Ed25519)
     s_less           the integer S is below the group order L
     a_canon, r_canon A resp. R is THE canonical encoding of a curve point (y < p, spare bits zero, x recoverable, not "x = 0, sign 1")
     a_prime          A lies in the prime-order subgroup
     cofactorless     [S]B = R + [k]A            cofactored   [c][S]B = [c]R + [c][k]A   (c = 8 resp. 4)
   "reject" and "accept" are mandatory; "either" is the room the RFC leaves (it allows both equations) for keys or R outside the
   prime-order subgroup. *)
EXTENDS Integers
Verdict(f) ==
  IF ~f.len_ok \/ ~f.ctx_ok \/ ~f.s_less \/ ~f.a_canon \/ ~f.r_canon THEN "reject"
  ELSE IF f.cofactorless /\ f.a_prime THEN "accept"
  ELSE IF ~f.cofactored THEN "reject"
  ELSE "either"
Consistent(f, accepted) == CASE Verdict(f) = "accept" -> accepted [] Verdict(f) = "reject" -> ~accepted [] OTHER -> TRUE
====
