---- MODULE MC_EdVerdict ----
(* The decision table over a toy group with the shape of an Edwards curve group: Z_(C*Q), cyclic of order C*Q with cofactor C and
   prime Q, base point B = C (order Q).  For ALL keys A, commitments R, responses S and challenges k TLC checks that
     - the cofactorless equation implies the cofactored one, so "accept" and the cofactored "reject" never collide;
     - for A and R in the prime-order subgroup the two equations are equivalent: the "either" verdict arises only from inputs with a
       torsion component;
     - an honest signature (R = r B, A = s B, S = r + k s mod Q) always gets "accept";
     - adding the group order to S changes nothing in either equation, so only the explicit S < L test rejects S + L (malleability).   *)
EXTENDS Integers, FiniteSets, TLC
CONSTANTS C, Q
N == C * Q
G == 0..(N - 1)
B == C
V == INSTANCE Rfc8032Verdict
Prime(a) == (Q * a) % N = 0
Cofactorless(A, R, S, k) == (S * B) % N = (R + k * A) % N
Cofactored(A, R, S, k) == (C * S * B) % N = (C * (R + k * A)) % N
Facts(A, R, S, k) == [len_ok |-> TRUE, ctx_ok |-> TRUE, s_less |-> S < Q, a_canon |-> TRUE, r_canon |-> TRUE, a_prime |-> Prime(A),
                      cofactorless |-> Cofactorless(A, R, S, k), cofactored |-> Cofactored(A, R, S, k)]
ASSUME \A A, R \in G, S \in 0..(2 * Q - 1), k \in 0..(Q - 1) :
         /\ Cofactorless(A, R, S, k) => Cofactored(A, R, S, k)
         /\ (Prime(A) /\ Prime(R)) => (Cofactorless(A, R, S, k) <=> Cofactored(A, R, S, k))
         /\ (V!Verdict(Facts(A, R, S, k)) = "either") => (~Prime(A) \/ ~Prime(R))
         /\ (S < Q) => (Cofactorless(A, R, S, k) <=> Cofactorless(A, R, S + Q, k)) /\ V!Verdict(Facts(A, R, S + Q, k)) = "reject"
ASSUME \A s, r, k \in 0..(Q - 1) : V!Verdict(Facts((s * B) % N, (r * B) % N, (r + k * s) % Q, k)) = "accept"
====
