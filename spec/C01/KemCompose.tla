---- MODULE KemCompose ----
(* C01.  Every KEM circl offers as a composition of leaves, the regions of its ciphertext, and for each
   (region, kind of alteration) the class of outcome decapsulation may have.  Leaves:
     fo-mlkem / fo-kyber / fo-frodo : Fujisaki-Okamoto with IMPLICIT rejection: never an error, the secret is
                                      exactly Reject(z, c') (terms below), never the honest one
     xraw25519 / xraw448 / craw256  : raw DH share of the TLS hybrids: all-zero result / invalid point -> error;
                                      X25519 ignores bit 255, so flipping it gives the HONEST secret (allowed)
     dhkem                          : RFC 9180 DHKEM: enc is bound through kem_context, so no bit is ignorable
     xwing                          : ML-KEM-768 + X25519 under SHA3-256(ss_M || ss_X || ct_X || pk_X || label):
                                      ct_X is hashed verbatim (no ignorable bit) and X-Wing never errors
   Composite: Concat(A, B) = kem/hybrid and hpke.hybridKEM (ciphertexts and secrets concatenated).       *)
EXTENDS Terms, FiniteSets, TLC
Leaf(kind, n) == [c |-> "leaf", kind |-> kind, n |-> n]
Concat(a, b) == [c |-> "concat", a |-> a, b |-> b]
XWing == Leaf("xwing", 1120)
Registry ==
  [ s \in {"ML-KEM-512", "ML-KEM-768", "ML-KEM-1024", "Kyber512", "Kyber768", "Kyber1024", "FrodoKEM-640-SHAKE",
           "Kyber512-X25519", "Kyber768-X25519", "Kyber768-X448", "Kyber1024-X448", "P256Kyber768Draft00", "X25519MLKEM768",
           "X-Wing", "HPKE_KEM_P256_HKDF_SHA256", "HPKE_KEM_P384_HKDF_SHA384", "HPKE_KEM_P521_HKDF_SHA512",
           "HPKE_KEM_X25519_HKDF_SHA256", "HPKE_KEM_X448_HKDF_SHA512", "HPKE_KEM_X25519_KYBER768_HKDF_SHA256", "HPKE_KEM_XWING"} |->
    CASE s = "ML-KEM-512" -> Leaf("fo-mlkem", 768) [] s = "ML-KEM-768" -> Leaf("fo-mlkem", 1088) [] s = "ML-KEM-1024" -> Leaf("fo-mlkem", 1568)
      [] s = "Kyber512" -> Leaf("fo-kyber", 768) [] s = "Kyber768" -> Leaf("fo-kyber", 1088) [] s = "Kyber1024" -> Leaf("fo-kyber", 1568)
      [] s = "FrodoKEM-640-SHAKE" -> Leaf("fo-frodo", 9720)
      [] s = "Kyber512-X25519" -> Concat(Leaf("xraw25519", 32), Leaf("fo-kyber", 768))
      [] s = "Kyber768-X25519" -> Concat(Leaf("xraw25519", 32), Leaf("fo-kyber", 1088))
      [] s = "Kyber768-X448" -> Concat(Leaf("xraw448", 56), Leaf("fo-kyber", 1088))
      [] s = "Kyber1024-X448" -> Concat(Leaf("xraw448", 56), Leaf("fo-kyber", 1568))
      [] s = "P256Kyber768Draft00" -> Concat(Leaf("craw256", 65), Leaf("fo-kyber", 1088))
      [] s = "X25519MLKEM768" -> Concat(Leaf("fo-mlkem", 1088), Leaf("xraw25519", 32))
      [] s = "X-Wing" -> XWing [] s = "HPKE_KEM_XWING" -> XWing
      [] s = "HPKE_KEM_P256_HKDF_SHA256" -> Leaf("dhkem", 65) [] s = "HPKE_KEM_P384_HKDF_SHA384" -> Leaf("dhkem", 97)
      [] s = "HPKE_KEM_P521_HKDF_SHA512" -> Leaf("dhkem", 133) [] s = "HPKE_KEM_X25519_HKDF_SHA256" -> Leaf("dhkem", 32)
      [] s = "HPKE_KEM_X448_HKDF_SHA512" -> Leaf("dhkem", 56)
      [] s = "HPKE_KEM_X25519_KYBER768_HKDF_SHA256" -> Concat(Leaf("dhkem", 32), Leaf("fo-kyber", 1088)) ]
RECURSIVE Size(_)
Size(x) == IF x.c = "leaf" THEN x.n ELSE Size(x.a) + Size(x.b)
\* sizes of a leaf's shared secret and (marshalled) private key: standards, not circl (FIPS 203 table 3, FrodoKEM-640, RFC 7748, SEC1, RFC 9180 table 2)
LeafSs(k, n) == CASE k \in {"fo-mlkem", "fo-kyber"} -> 32 [] k = "fo-frodo" -> 16 [] k = "xraw25519" -> 32 [] k = "xraw448" -> 56 [] k = "craw256" -> 32
                  [] k = "xwing" -> 32 [] k = "dhkem" -> (CASE n = 65 -> 32 [] n = 97 -> 48 [] n = 133 -> 64 [] n = 32 -> 32 [] n = 56 -> 64 [] OTHER -> 32)
LeafSk(k, n) == CASE k \in {"fo-mlkem", "fo-kyber"} -> (CASE n = 768 -> 1632 [] n = 1088 -> 2400 [] n = 1568 -> 3168 [] OTHER -> 32)
                  [] k = "fo-frodo" -> 19888 [] k = "xraw25519" -> 32 [] k = "xraw448" -> 56 [] k = "craw256" -> 32 [] k = "xwing" -> 32
                  [] k = "dhkem" -> (CASE n = 65 -> 32 [] n = 97 -> 48 [] n = 133 -> 66 [] n = 32 -> 32 [] n = 56 -> 56 [] OTHER -> 32)
RECURSIVE SsSize(_)
SsSize(x) == IF x.c = "leaf" THEN LeafSs(x.kind, x.n) ELSE SsSize(x.a) + SsSize(x.b)
RECURSIVE SkSize(_)
SkSize(x) == IF x.c = "leaf" THEN LeafSk(x.kind, x.n) ELSE SkSize(x.a) + SkSize(x.b)
\* regions: one per leaf (xwing: its ML-KEM part and its X25519 part; an X25519 share: its masked bit apart), with where the
\* leaf's part of the shared secret and of the private key sits
Reg(kind, off, len, bit, x, ssoff, skoff) == [kind |-> kind, off |-> off, len |-> len, bit |-> bit,
                                             ssoff |-> ssoff, sslen |-> LeafSs(x.kind, x.n), skoff |-> skoff, sklen |-> LeafSk(x.kind, x.n)]
RECURSIVE RegionsAt(_,_,_,_)
RegionsAt(x, off, ssoff, skoff) ==
  IF x.c = "concat" THEN RegionsAt(x.a, off, ssoff, skoff) \cup RegionsAt(x.b, off + Size(x.a), ssoff + SsSize(x.a), skoff + SkSize(x.a))
  ELSE IF x.kind = "xwing" THEN {Reg("xwing-m", off, 1088, -1, x, ssoff, skoff), Reg("xwing-x", off + 1088, 32, -1, x, ssoff, skoff), Reg("xwing-x", off + 1088, 32, 255, x, ssoff, skoff)}
  ELSE IF x.kind = "xraw25519" THEN {Reg(x.kind, off, 32, -1, x, ssoff, skoff), Reg("xraw25519-masked", off, 32, 255, x, ssoff, skoff)}
  ELSE {Reg(x.kind, off, x.n, -1, x, ssoff, skoff)}
Regions(x, off) == RegionsAt(x, off, 0, 0)
IsFO(k) == k \in {"fo-mlkem", "fo-kyber", "fo-frodo"}
\* outcome class of altering (only) bits inside one region
RegionClass(k) ==
  CASE IsFO(k) -> "reject-exact"                  \* no error, secret = composition with Reject(z, c'), never honest
    [] k = "xwing-m" -> "reject-exact"
    [] k = "xwing-x" -> "other"                   \* no error (X-Wing spec), never honest: ct_X is hashed
    [] k = "xraw25519-masked" -> "honest-allowed"
    [] k \in {"xraw25519", "xraw448", "craw256", "dhkem"} -> "other-or-error"
\* whole-ciphertext alterations: "zero", "ff", "otherkey" (an honest ciphertext made for another key pair)
LeafWhole(k, w) ==
  CASE IsFO(k) \/ k = "xwing" -> "other"                                   \* implicit rejection / X-Wing: never an error
    [] k \in {"xraw25519", "xraw448"} -> IF w = "zero" THEN "error" ELSE "other"     \* u = 0 has low order; all-ones reduces to a fine point
    [] k = "craw256" -> IF w = "otherkey" THEN "other" ELSE "error"       \* not a valid SEC1 point
    [] k = "dhkem" -> IF w = "otherkey" THEN "other" ELSE "other-or-error"
RECURSIVE WholeClass(_,_)
WholeClass(x, w) ==
  IF x.c = "leaf" THEN LeafWhole(x.kind, w)
  ELSE LET a == WholeClass(x.a, w)  b == WholeClass(x.b, w)
       IN IF "error" \in {a, b} THEN "error" ELSE IF "other-or-error" \in {a, b} THEN "other-or-error" ELSE "other"
Scenarios(name) == { [scheme |-> name, kind |-> "flip", region |-> r, class |-> RegionClass(r.kind)] : r \in Regions(Registry[name], 0) }
              \cup { [scheme |-> name, kind |-> "multi", region |-> r, class |-> RegionClass(r.kind)] : r \in {q \in Regions(Registry[name], 0) : q.bit = -1} }
              \cup { [scheme |-> name, kind |-> "pair", region |-> r, class |-> RegionClass(r.kind)] : r \in {q \in Regions(Registry[name], 0) : q.bit = -1} }      \* the same bit flipped in two places of one region (equal changes to two coefficients must not cancel in a comparison)
              \cup { [scheme |-> name, kind |-> w, region |-> [kind |-> "whole", off |-> 0, len |-> Size(Registry[name]), bit |-> -1, ssoff |-> 0, sslen |-> SsSize(Registry[name]), skoff |-> 0, sklen |-> SkSize(Registry[name])], class |-> WholeClass(Registry[name], w)]
                     : w \in {"zero", "ff", "otherkey"} }
AllScenarios == UNION { Scenarios(n) : n \in DOMAIN Registry }

\* ---- exact rejection terms (FIPS 203 section 6.3 / Kyber round 3 / FrodoKEM) and the X-Wing combiner
RejectTerm(k) == CASE k = "fo-mlkem" -> Shake("SHAKE256", Cat(<<Var("z"), Var("c")>>), 32)
                   [] k = "fo-kyber" -> Shake("SHAKE256", Cat(<<Var("z"), Hash("SHA3-256", Var("c"))>>), 32)
                   [] k = "fo-frodo" -> Shake("SHAKE128", Cat(<<Var("c"), Var("s")>>), 16)
XWingCombine(ssM) == Hash("SHA3-256", Cat(<<ssM, Var("ssX"), Var("ctX"), Var("pkX"), Lit("\\.//^\\")>>))
XWingExpand == Shake("SHAKE256", Var("seed"), 96)            \* sk = 32-byte seed -> (d, z) || sk_X
TermsOut == [reject |-> [k \in {"fo-mlkem", "fo-kyber", "fo-frodo"} |-> RejectTerm(k)],
             xwing_reject |-> XWingCombine(RejectTerm("fo-mlkem")), xwing_honest |-> XWingCombine(Var("ssM")),
             xwing_z |-> Slice(XWingExpand, 32, 64), xwing_skx |-> Slice(XWingExpand, 64, 96)]

\* ---- the decapsulation machine over an arbitrary composition (model-level theorems)
LeafKinds == {"fo-mlkem", "fo-frodo", "xraw25519", "xraw448", "craw256", "dhkem", "xwing"}
Shapes == {Leaf(k, 32) : k \in LeafKinds} \cup {Concat(Leaf(k1, 32), Leaf(k2, 32)) : k1, k2 \in LeafKinds}
             \cup {Concat(Concat(Leaf(k1, 32), Leaf(k2, 32)), Leaf(k3, 32)) : k1, k2, k3 \in {"fo-mlkem", "xraw25519", "dhkem"}}
VARIABLES shape, alt, outcome
Init == shape \in Shapes /\ alt = <<"none">> /\ outcome = "none"
AlterRegion == /\ alt = <<"none">> /\ outcome = "none" /\ \E r \in Regions(shape, 0) : alt' = <<"region", r>> /\ UNCHANGED <<shape, outcome>>
AlterWhole == /\ alt = <<"none">> /\ outcome = "none" /\ \E w \in {"zero", "ff", "otherkey"} : alt' = <<"whole", w>> /\ UNCHANGED <<shape, outcome>>
Decaps == /\ outcome = "none"
          /\ outcome' = IF alt[1] = "none" THEN "honest" ELSE IF alt[1] = "region" THEN RegionClass(alt[2].kind) ELSE WholeClass(shape, alt[2])
          /\ UNCHANGED <<shape, alt>>
Next == AlterRegion \/ AlterWhole \/ Decaps
Spec == Init /\ [][Next]_<<shape, alt, outcome>>
HonestOnlyIfUnaltered ==       \* the honest secret is possible only without alteration or on the masked X25519 bit of a RAW share
  outcome \in {"honest", "honest-allowed"} => (alt[1] = "none" \/ (alt[1] = "region" /\ alt[2].kind = "xraw25519-masked"))
RECURSIVE OnlyFO(_)
OnlyFO(x) == IF x.c = "leaf" THEN IsFO(x.kind) \/ x.kind = "xwing" ELSE OnlyFO(x.a) /\ OnlyFO(x.b)
ImplicitRejectionNeverErrors == (outcome # "none" /\ OnlyFO(shape)) => outcome \notin {"error", "other-or-error"}
RegistrySizesOk == \A n \in DOMAIN Registry : Size(Registry[n]) > 0 /\ \A r \in Regions(Registry[n], 0) : r.off + r.len <= Size(Registry[n])
====
