SPECIFICATION Spec
INVARIANTS HonestOnlyIfUnaltered ImplicitRejectionNeverErrors
CHECK_DEADLOCK FALSE
