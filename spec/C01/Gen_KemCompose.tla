---- MODULE Gen_KemCompose ----
EXTENDS KemCompose, Json, SequencesExt
ASSUME RegistrySizesOk
ASSUME JsonSerialize("scenarios.json", SetToSeq(AllScenarios))
ASSUME JsonSerialize("terms.json", TermsOut)
====
