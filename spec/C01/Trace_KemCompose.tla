---- MODULE Trace_KemCompose ----
(* Judges what real Decapsulate calls did, aggregated per (scheme, region, alteration kind): `total` altered
   ciphertexts of which `honest` returned the honest secret, `error` an error, `exact` exactly the
   specification's rejection secret (Reject terms of KemCompose evaluated without circl), `other` some other
   secret, `panic` panicked; `nondet` = two calls on the same input disagreed.                            *)
EXTENDS Integers, Sequences, TLC, Json
VARIABLES l, bad
KC == INSTANCE KemCompose WITH shape <- 0, alt <- 0, outcome <- 0
ClassOf(r) ==       \* recomputed from the specification, not taken from the trace
  IF r.kind \in {"zero", "ff", "otherkey"} THEN KC!WholeClass(KC!Registry[r.scheme], r.kind) ELSE KC!RegionClass(r.region)
OkAlter(r) ==
  /\ r.scheme \in DOMAIN KC!Registry /\ r.class = ClassOf(r) /\ r.total > 0
  /\ r.panic = 0 /\ r.nondet = 0
  /\ CASE ClassOf(r) = "reject-exact" -> r.exact = r.total
       [] ClassOf(r) = "other" -> r.other = r.total                    \* no error, never the honest secret
       [] ClassOf(r) = "other-or-error" -> r.honest = 0 /\ r.exact = 0
       [] ClassOf(r) = "error" -> r.error = r.total
       [] ClassOf(r) = "honest-allowed" -> r.honest + r.error = r.total
OkBasic(r) == r.derive_det /\ r.encaps_det /\ r.sizes_ok /\ r.roundtrip_ok /\ r.decaps_ok
OkLine(r) == CASE r.ev = "alter" -> OkAlter(r) [] r.ev = "basic" -> OkBasic(r) [] OTHER -> FALSE     \* "unmodelled": registry drift
INSTANCE LinesTrace WITH Ok <- OkLine
ASSUME TLCSet(1, 0) /\ TLCSet(2, {}) /\ TLCSet(3, ndJsonDeserialize("trace.ndjson"))
====
