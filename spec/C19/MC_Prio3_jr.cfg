SPECIFICATION Spec
CONSTANTS P = 3  NAgg = 2  MaxReports = 2  ValidSet = {0, 1}  HasJR = TRUE
INVARIANTS AggregateIsSum OnlyAccepted AcceptedSound SingleAlterationRejected HonestAccepted OutIsAggregate
PROPERTY UnshardPure
CHECK_DEADLOCK FALSE
