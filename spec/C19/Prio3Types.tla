---- MODULE Prio3Types ----
(* C19.  What the five Prio3 instances of draft-irtf-cfrg-vdaf-13 (section 7.4) MEAN, independently of any proof system:
   the set of valid encoded measurements, the encoding of a measurement, the part that is aggregated (truncate) and
   which parameter choices are admissible.  Field elements and aggregates are BigNat digit sequences (base 4096, little
   endian); an instance is a record [inst, a, b, c] whose parameters are small integers or BigNat values (Sum's bound).

     count      : -                                      sum   : a = max measurement (BigNat), bits = its bit length (int)
     sumvec     : a = length, b = bits, c = chunk        histogram : a = length, c = chunk
     mhcv       : a = length, b = max weight, c = chunk                                                              *)
EXTENDS BigNat, Integers, Sequences, FiniteSets
Zero == <<>>
IsBit(x) == Norm(x) = <<>> \/ Norm(x) = <<1>>
AllBits(v) == \A i \in 1..Len(v) : IsBit(v[i])
RECURSIVE JoinBitsR(_, _, _), SumR2(_, _), BitLen(_)
JoinBitsR(v, i, acc) == IF i = 0 THEN acc ELSE JoinBitsR(v, i - 1, Add(Add(acc, acc), v[i]))   \* sum 2^(i-1) v[i], Horner from the top
JoinBits(v) == JoinBitsR(v, Len(v), Zero)
SumR2(v, i) == IF i > Len(v) THEN Zero ELSE Add(v[i], SumR2(v, i + 1))
SumVecN(v) == SumR2(v, 1)
BitLen(n) == IF n = 0 THEN 0 ELSE 1 + BitLen(n \div 2)
\* bits of a BigNat n (little endian, k of them) via its digits: bit i of n is bit (i mod 12) of digit (i div 12)
BitOf(n, i) == LET d == (i \div 12) + 1 IN IF d > Len(n) THEN 0 ELSE ((n[d] \div (2^(i - 12 * (i \div 12)))) % 2)
SplitBits(n, k) == [i \in 1..k |-> Small(BitOf(n, i - 1))]
BigBitLen(n) == LET m == Norm(n) IN IF m = <<>> THEN 0 ELSE 12 * (Len(m) - 1) + BitLen(m[Len(m)])
Bits(I) == CASE I.inst = "sum" -> BigBitLen(I.a) [] I.inst = "mhcv" -> BitLen(I.b) [] I.inst = "sumvec" -> I.b [] OTHER -> 0
Offset(I) == CASE I.inst = "sum" -> Sub(Sub(Pow2(Bits(I)), One), I.a)                \* 2^bits - 1 - max
               [] I.inst = "mhcv" -> Sub(Sub(Pow2(Bits(I)), One), Small(I.b))
               [] OTHER -> Zero
MeasLen(I) == CASE I.inst = "count" -> 1 [] I.inst = "sum" -> 2 * Bits(I) [] I.inst = "sumvec" -> I.a * I.b
                [] I.inst = "histogram" -> I.a [] I.inst = "mhcv" -> I.a + Bits(I)
OutLen(I) == CASE I.inst = "count" -> 1 [] I.inst = "sum" -> 1 [] OTHER -> I.a
Modulus(I) == IF I.inst \in {"count", "sum"} THEN Add(Sub(Pow2(64), Pow2(32)), One)                 \* Field64: 2^64 - 2^32 + 1
              ELSE Add(Sub(Pow2(128), Mul(Small(7), Pow2(66))), One)                                 \* Field128: 2^66 * (2^62 - 7) + 1
(* -------- valid encoded measurements (the language of the validity circuit) *)
Valid(I, v) ==
  /\ Len(v) = MeasLen(I) /\ AllBits(v)
  /\ CASE I.inst = "count" -> TRUE
       [] I.inst = "sum" -> Eq(Add(JoinBits(SubSeq(v, 1, Bits(I))), Offset(I)), JoinBits(SubSeq(v, Bits(I) + 1, 2 * Bits(I))))
       [] I.inst = "sumvec" -> TRUE
       [] I.inst = "histogram" -> Eq(SumVecN(v), One)
       [] I.inst = "mhcv" -> Eq(Add(SumVecN(SubSeq(v, 1, I.a)), Offset(I)), JoinBits(SubSeq(v, I.a + 1, I.a + Bits(I))))
(* -------- the honest encoding of a measurement m (count: 0/1; sum: BigNat; sumvec: sequence of BigNat; histogram: index
   from 0; mhcv: sequence of 0/1) and whether m is a measurement at all *)
IsMeasurement(I, m) ==
  CASE I.inst = "count" -> m \in {0, 1}
    [] I.inst = "sum" -> Leq(m, I.a)
    [] I.inst = "sumvec" -> Len(m) = I.a /\ \A i \in 1..Len(m) : Less(m[i], Pow2(I.b))
    [] I.inst = "histogram" -> m \in 0..(I.a - 1)
    [] I.inst = "mhcv" -> Len(m) = I.a /\ (\A i \in 1..Len(m) : m[i] \in {0, 1}) /\ Cardinality({i \in 1..Len(m) : m[i] = 1}) <= I.b
RECURSIVE Concat(_, _)
Concat(ss, i) == IF i > Len(ss) THEN <<>> ELSE ss[i] \o Concat(ss, i + 1)
Encode(I, m) ==
  CASE I.inst = "count" -> <<Small(m)>>
    [] I.inst = "sum" -> SplitBits(m, Bits(I)) \o SplitBits(Add(m, Offset(I)), Bits(I))
    [] I.inst = "sumvec" -> Concat([i \in 1..Len(m) |-> SplitBits(m[i], I.b)], 1)
    [] I.inst = "histogram" -> [i \in 1..I.a |-> IF i = m + 1 THEN One ELSE Zero]
    [] I.inst = "mhcv" -> [i \in 1..I.a |-> Small(m[i])] \o SplitBits(Add(Small(Cardinality({i \in 1..Len(m) : m[i] = 1})), Offset(I)), Bits(I))
(* -------- what is aggregated *)
Truncate(I, v) ==
  CASE I.inst = "count" -> v
    [] I.inst = "sum" -> <<JoinBits(SubSeq(v, 1, Bits(I)))>>
    [] I.inst = "sumvec" -> [i \in 1..I.a |-> JoinBits(SubSeq(v, (i - 1) * I.b + 1, i * I.b))]
    [] I.inst = "histogram" -> v
    [] I.inst = "mhcv" -> SubSeq(v, 1, I.a)
VecAdd(x, y) == [i \in 1..Len(x) |-> Norm(Add(x[i], y[i]))]
Zeros(n) == [i \in 1..n |-> Zero]
(* -------- parameters.  Degenerate: the constructor must report an error.  Admissible: it must succeed. *)
Degenerate(I, shares) ==
  \/ shares < 2
  \/ I.inst \in {"sumvec", "histogram", "mhcv"} /\ I.c = 0
  \/ I.inst = "sum" /\ ~Less(Pow2(Bits(I)), Modulus(I))            \* some measurement below the bound has no faithful encoding: 2^bits >= p
Admissible(I, shares) ==
  /\ ~Degenerate(I, shares)
  /\ CASE I.inst = "sumvec" -> I.a > 0 /\ I.b \in 1..64
       [] I.inst = "histogram" -> I.a > 0
       [] I.inst = "mhcv" -> I.a > 0 /\ I.b \in 1..I.a
       [] OTHER -> TRUE
====
