SPECIFICATION Spec
CONSTANTS P = 5  NAgg = 3  MaxReports = 2  ValidSet = {0, 1}  HasJR = FALSE
INVARIANTS AggregateIsSum OnlyAccepted AcceptedSound SingleAlterationRejected HonestAccepted OutIsAggregate
PROPERTY UnshardPure
CHECK_DEADLOCK FALSE
