---- MODULE Trace_Prio3 ----
(* Stateful validation of recorded Prio3 sessions (one instance, one batch, several unshards) against Prio3Types.tla.
   The state is the instance and the aggregate the SPEC expects; each line must be explainable:
     new     - the constructor's outcome follows Degenerate / Admissible, its lengths are the specified ones
     report  - honest: the library's encoding is Encode(I, m), the public Shard is bound to it, accepted iff nothing altered;
               raw (an arbitrary encoded vector proved honestly): accepted iff Valid(I, enc) and nothing altered;
               a non-measurement is refused with an error; every message survived its marshal/unmarshal round trip
     unshard - the collector's result is the expected aggregate (and asking again, or after more reports, still is)      *)
EXTENDS Prio3Types, TLC, Json
VARIABLES l, I, agg, live
Tr == TLCGet(3)
Inst(e) == [inst |-> e.inst, a |-> e.a, b |-> e.b, c |-> e.c]
Calls(len, chunk) == (len + chunk - 1) \div chunk
JrLen(J) == IF J.inst \in {"count", "sum"} THEN 0 ELSE Calls(MeasLen(J), J.c)
SameVec(x, y) == Len(x) = Len(y) /\ \A i \in 1..Len(x) : Eq(x[i], y[i])
New(e) == LET J == Inst(e) IN
  /\ e.outcome \in {"ok", "err"}
  /\ Degenerate(J, e.shares) => e.outcome = "err"
  /\ Admissible(J, e.shares) => (e.outcome = "ok" /\ e.measlen = MeasLen(J) /\ e.outlen = OutLen(J) /\ e.jrlen = JrLen(J))
  /\ live' = (e.outcome = "ok") /\ I' = J
  /\ agg' = IF e.outcome = "ok" /\ ~Degenerate(J, e.shares) THEN Zeros(e.outlen) ELSE <<>>
Report(e) ==
  /\ live /\ e.panics = 0 /\ e.rt_ok /\ e.owned     \* owned: the PrepState does not change when the caller decodes another report into the InputShare object it passed
  /\ IF e.kind = "honest"
     THEN IF IsMeasurement(I, e.m)
          THEN ~e.encode_err /\ SameVec(e.enc, Encode(I, e.m)) /\ e.bound /\ (e.accepted = (e.site = "none"))
          ELSE e.encode_err /\ ~e.accepted
     ELSE e.accepted = (e.site = "none" /\ Valid(I, e.enc))
  /\ agg' = IF e.accepted THEN VecAdd(agg, Truncate(I, e.enc)) ELSE agg
  /\ UNCHANGED <<I, live>>
Unshard(e) == /\ live /\ e.panics = 0 /\ ~e.err /\ SameVec(e.result, agg) /\ UNCHANGED <<I, agg, live>>
Step(e) == CASE e.ev = "new" -> New(e) [] e.ev = "report" -> Report(e) [] e.ev = "unshard" -> Unshard(e) [] OTHER -> FALSE
TInit == l = 1 /\ I = [inst |-> "none"] /\ agg = <<>> /\ live = FALSE
TNext == l <= Len(Tr) /\ Step(Tr[l]) /\ l' = l + 1
TSpec == TInit /\ [][TNext]_<<l, I, agg, live>>
ASSUME TLCSet(1, 0) /\ TLCSet(3, ndJsonDeserialize("trace.ndjson"))
HighWater == TLCSet(1, IF l > TLCGet(1) THEN l ELSE TLCGet(1))
Verdict == JsonSerialize("verdict.json", [consumed |-> TLCGet(1) - 1, total |-> Len(Tr)])
====
