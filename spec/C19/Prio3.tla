---- MODULE Prio3 ----
(* C19, protocol level.  Clients shard (possibly invalid) encoded measurements into additive shares over a toy field,
   an adversary may alter any share / joint-randomness part / preparation message in flight, aggregators prepare, aggregate
   accepted reports and a collector unshards.  The fully linear proof is IDEAL here (it accepts exactly the valid encodings
   under the joint randomness the aggregators agree on and a proof that was not altered); its circuits are the subject of
   Prio3Circuits.tla and the real proof system is exercised by the replayed scenarios.  Checked:
     AggregateIsSum  - when every aggregator has processed the same reports, the unsharded value is the sum of the truncated
                       measurements of exactly the accepted reports (mod P)
     AcceptedSound   - an accepted report is valid, contributes its measurement and (with joint randomness) no message was altered;
                       SingleAlterationRejected: a report with exactly one altered message is never accepted
     HonestAccepted  - a valid report that nobody touched is never rejected
     UnshardPure     - unsharding does not change any aggregation share (it can be repeated and aggregation can continue) *)
EXTENDS Integers, Sequences, FiniteSets, TLC
CONSTANTS P, NAgg, MaxReports, ValidSet, HasJR
Fp == 0..(P - 1)
Agg == 1..NAgg
VARIABLES reports,   \* sequence of [m, sh (Agg -> Fp), part (Agg -> claimed joint-randomness part), touched, st]
          agg,       \* Agg -> Fp
          done,      \* Agg -> set of report indices folded into agg
          out        \* last unsharded value or -1
vars == <<reports, agg, done, out>>
SumF(f, S) == LET RECURSIVE R(_) R(T) == IF T = {} THEN 0 ELSE LET x == CHOOSE y \in T : TRUE IN f[x] + R(T \ {x}) IN R(S)
ShareSum(r) == SumF(r.sh, Agg) % P
\* the part an aggregator derives from ITS share (an injective "hash": the share itself, offset so that it differs from the default)
PartOf(j, s) == <<j, s>>
Init == reports = <<>> /\ agg = [j \in Agg |-> 0] /\ done = [j \in Agg |-> {}] /\ out = -1
Shard(m, sh) == /\ Len(reports) < MaxReports /\ (SumF(sh, Agg) % P) = m
                /\ reports' = Append(reports, [m |-> m, sh |-> sh, part |-> [j \in Agg |-> PartOf(j, sh[j])], proofok |-> TRUE, sh0 |-> sh, st |-> "new"])
                /\ UNCHANGED <<agg, done, out>>
\* ---- alterations before preparation
AlterMeasShare(i, j, d) == /\ reports[i].st = "new" /\ d # 0
                           /\ reports' = [reports EXCEPT ![i].sh[j] = (@ + d) % P]
                           /\ UNCHANGED <<agg, done, out>>
AlterProofShare(i) == /\ reports[i].st = "new" /\ reports' = [reports EXCEPT ![i].proofok = FALSE]
                      /\ UNCHANGED <<agg, done, out>>
AlterPublicShare(i, j) == /\ HasJR /\ reports[i].st = "new" /\ reports' = [reports EXCEPT ![i].part[j] = <<0, 0>>]
                          /\ UNCHANGED <<agg, done, out>>
\* ---- preparation: every aggregator derives its own part from its share, takes the others from the public share, queries;
\*      the proof verifies iff it is intact, all aggregators used the same joint randomness AND that randomness is the one
\*      the proof was made for (i.e. every claimed part is the true one) and the shared measurement is valid
Prepare(i) ==
  LET r == reports[i]
      truePart == [j \in Agg |-> PartOf(j, r.sh[j])]
      seen(j) == [k \in Agg |-> IF k = j THEN truePart[j] ELSE r.part[k]]            \* joint randomness aggregator j queries with
      agree == \A j, k \in Agg : seen(j) = seen(k)
      \* the verifier is linear in the shares: without joint randomness only the SUMS of the shares matter
      decide == r.proofok /\ ShareSum(r) = r.m /\ r.m \in ValidSet /\ (HasJR => agree /\ seen(1) = truePart)
      \* PrepNext: the seed in the preparation message (from the parts in the prep shares = true parts) must equal the corrected seed
      next(j) == HasJR => seen(j) = truePart
  IN /\ r.st = "new"
     /\ reports' = [reports EXCEPT ![i].st = IF decide /\ \A j \in Agg : next(j) THEN "accepted" ELSE "rejected"]
     /\ UNCHANGED <<agg, done, out>>
AggregateUpdate(j, i) == /\ reports[i].st = "accepted" /\ i \notin done[j]
                         /\ agg' = [agg EXCEPT ![j] = (@ + reports[i].sh[j]) % P] /\ done' = [done EXCEPT ![j] = @ \cup {i}]
                         /\ UNCHANGED <<reports, out>>
Unshard == /\ \A j, k \in Agg : done[j] = done[k]
           /\ out' = SumF(agg, Agg) % P /\ UNCHANGED <<reports, agg, done>>
Next == \/ \E m \in Fp, sh \in [Agg -> Fp] : Shard(m, sh)
        \/ \E i \in 1..Len(reports) : \/ \E j \in Agg, d \in 1..(P - 1) : AlterMeasShare(i, j, d)
                                      \/ AlterProofShare(i) \/ (\E j \in Agg : AlterPublicShare(i, j)) \/ Prepare(i)
                                      \/ \E j \in Agg : AggregateUpdate(j, i)
        \/ Unshard
Spec == Init /\ [][Next]_vars
Accepted == {i \in 1..Len(reports) : reports[i].st = "accepted"}
MeasOf == [i \in 1..Len(reports) |-> reports[i].m]
AggregateIsSum == (\A j, k \in Agg : done[j] = done[k]) => (SumF(agg, Agg) % P) = (SumF(MeasOf, done[1]) % P)
OnlyAccepted == \A j \in Agg : done[j] \subseteq Accepted
Diffs(r) == Cardinality({j \in Agg : r.sh[j] # r.sh0[j]}) + Cardinality({j \in Agg : r.part[j] # PartOf(j, r.sh0[j])}) + (IF r.proofok THEN 0 ELSE 1)
AcceptedSound == \A i \in Accepted : LET r == reports[i] IN r.m \in ValidSet /\ ShareSum(r) = r.m /\ r.proofok /\ (HasJR => Diffs(r) = 0)
SingleAlterationRejected == \A i \in Accepted : Diffs(reports[i]) # 1              \* what the replayed scenarios exercise
HonestAccepted == \A i \in 1..Len(reports) : (reports[i].st = "rejected") => (Diffs(reports[i]) > 0 \/ reports[i].m \notin ValidSet)
UnshardPure == [][out' # out => agg' = agg /\ done' = done]_vars
OutIsAggregate == out # -1 => \E S \in SUBSET Accepted : out = (SumF(MeasOf, S) % P)
====
