---- MODULE Prio3Circuits ----
(* C19, circuit level.  The validity circuits of draft-irtf-cfrg-vdaf-13 section 7.4 over a toy field F_P, evaluated on the
   UNSHARED encoded measurement (shares = 1), and the claim that ties them to Prio3Types!Valid:

        for every vector v over F_P of the instance's length:   (for ALL joint randomness: every circuit output is 0)  <=>  v is valid

   checked by exhaustive evaluation (ASSUME) for small parameter sets of each instance, among them lengths that are NOT a
   multiple of the chunk length.  Calls(len, chunk) = ceil(len / chunk) is the number of gadget calls = the length of the joint
   randomness; the recorded Params().JointRandLength() of the real instances is compared with it in Trace_Prio3.tla.     *)
EXTENDS Integers, Sequences, FiniteSets, TLC
P == 7
F == 0..(P - 1)
M(x) == x % P
Calls(len, chunk) == (len + chunk - 1) \div chunk
RECURSIVE PowM(_, _), JoinM(_, _), SumM(_, _)
PowM(r, k) == IF k = 0 THEN 1 ELSE M(r * PowM(r, k - 1))
JoinM(v, i) == IF i > Len(v) THEN 0 ELSE M(v[i] * PowM(2, i - 1) + JoinM(v, i + 1))
SumM(v, i) == IF i > Len(v) THEN 0 ELSE M(v[i] + SumM(v, i + 1))
\* ParallelSum(Mul, chunk) range check of section 7.4.3: sum over calls i and positions j of r_i^(j+1) * m * (m - 1), zero padded
RangeCheck(v, jr, chunk, calls) ==
  LET term(i, j) == LET idx == (i - 1) * chunk + j
                        m == IF idx <= Len(v) THEN v[idx] ELSE 0
                    IN M(PowM(jr[i], j) * M(m * (m + P - 1)))
      RECURSIVE Tot(_, _)
      Tot(i, j) == IF i > calls THEN 0 ELSE IF j > chunk THEN Tot(i + 1, 1) ELSE M(term(i, j) + Tot(i, j + 1))
  IN Tot(1, 1)
\* I = [inst, len (count vector / vector length), bits, chunk, offset]; outputs as a sequence
Eval(I, v, jr) ==
  CASE I.inst = "count" -> <<M(v[1] * v[1] + P - v[1])>>
    [] I.inst = "sum" -> [i \in 1..(2 * I.bits) |-> M(v[i] * (v[i] + P - 1))]
                          \o <<M(I.offset + JoinM(SubSeq(v, 1, I.bits), 1) + P - JoinM(SubSeq(v, I.bits + 1, 2 * I.bits), 1))>>
    [] I.inst = "sumvec" -> <<RangeCheck(v, jr, I.chunk, Calls(Len(v), I.chunk))>>
    [] I.inst = "histogram" -> <<RangeCheck(v, jr, I.chunk, Calls(Len(v), I.chunk)), M(SumM(v, 1) + P - 1)>>
    [] I.inst = "mhcv" -> <<RangeCheck(v, jr, I.chunk, Calls(Len(v), I.chunk)),
                            M(I.offset + SumM(SubSeq(v, 1, I.len), 1) + P - JoinM(SubSeq(v, I.len + 1, I.len + I.bits), 1))>>
MeasLen(I) == CASE I.inst = "count" -> 1 [] I.inst = "sum" -> 2 * I.bits [] I.inst = "sumvec" -> I.len * I.bits
                [] I.inst = "histogram" -> I.len [] I.inst = "mhcv" -> I.len + I.bits
JrLen(I) == IF I.inst \in {"count", "sum"} THEN 0 ELSE Calls(MeasLen(I), I.chunk)
\* validity as in Prio3Types (integers are enough at this size: nothing wraps below P except where stated)
Bitsv(v) == \A i \in 1..Len(v) : v[i] \in {0, 1}
RECURSIVE JoinZ(_, _), SumZ(_, _)
JoinZ(v, i) == IF i > Len(v) THEN 0 ELSE v[i] * (2^(i - 1)) + JoinZ(v, i + 1)
SumZ(v, i) == IF i > Len(v) THEN 0 ELSE v[i] + SumZ(v, i + 1)
Valid(I, v) == /\ Bitsv(v)
               /\ CASE I.inst = "sum" -> JoinZ(SubSeq(v, 1, I.bits), 1) + I.offset = JoinZ(SubSeq(v, I.bits + 1, 2 * I.bits), 1)
                    [] I.inst = "histogram" -> SumZ(v, 1) = 1
                    [] I.inst = "mhcv" -> SumZ(SubSeq(v, 1, I.len), 1) + I.offset = JoinZ(SubSeq(v, I.len + 1, I.len + I.bits), 1)
                    [] OTHER -> TRUE
AllZero(s) == \A i \in 1..Len(s) : s[i] = 0
Vecs(n) == [1..n -> F]
Sound(I) == \A v \in Vecs(MeasLen(I)) : (\A jr \in Vecs(JrLen(I)) : AllZero(Eval(I, v, jr))) <=> Valid(I, v)
Instances == {
  [inst |-> "count", len |-> 1, bits |-> 0, chunk |-> 1, offset |-> 0],
  [inst |-> "sum", len |-> 1, bits |-> 2, chunk |-> 1, offset |-> 1],          \* max measurement 2: offset = 2^2 - 1 - 2
  [inst |-> "sum", len |-> 1, bits |-> 2, chunk |-> 1, offset |-> 0],          \* max measurement 3
  [inst |-> "sumvec", len |-> 2, bits |-> 2, chunk |-> 3, offset |-> 0],       \* 4 elements, chunk 3: last chunk is partial
  [inst |-> "sumvec", len |-> 3, bits |-> 1, chunk |-> 2, offset |-> 0],
  [inst |-> "histogram", len |-> 4, bits |-> 0, chunk |-> 3, offset |-> 0],
  [inst |-> "histogram", len |-> 3, bits |-> 0, chunk |-> 2, offset |-> 0],
  [inst |-> "mhcv", len |-> 3, bits |-> 2, chunk |-> 2, offset |-> 1],         \* max weight 2; 5 elements, chunk 2
  [inst |-> "mhcv", len |-> 3, bits |-> 2, chunk |-> 3, offset |-> 0] }        \* max weight 3; 5 elements, chunk 3
ASSUME \A I \in Instances : Sound(I) \/ Print(<<"circuit does not decide validity", I>>, FALSE)
\* sanity of the check itself: with one gadget call fewer the trailing elements are unchecked and the equivalence FAILS
CallsFloor(len, chunk) == len \div chunk
ASSUME LET I == [inst |-> "sumvec", len |-> 2, bits |-> 2, chunk |-> 3, offset |-> 0]
           v == <<0, 1, 0, 2>>
       IN ~Valid(I, v) /\ \A jr \in Vecs(1) : RangeCheck(v, jr, 3, CallsFloor(4, 3)) = 0
====
