SPECIFICATION Spec
INVARIANTS AcceptOnlyCanonicalMember EncoderImageAccepted
CHECK_DEADLOCK FALSE
