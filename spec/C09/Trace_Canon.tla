---- MODULE Trace_Canon ----
(* One line per (format, class): `total` concrete byte strings of that class were handed to the real decoder;
   `accepted` were accepted, of which `reenc_diff` re-serialised to different bytes and `not_member` failed the
   membership test (on the curve, and killed by the group order where the subgroup matters).                 *)
EXTENDS Integers, Sequences, TLC, Json
VARIABLES l, bad
CN == INSTANCE Canon WITH fmt <- 0, enc <- 0, verdict <- 0
OkLine(r) ==
  /\ r.fmt \in CN!Formats /\ r.total > 0 /\ r.panics = 0
  /\ r.reenc_diff = 0 /\ r.not_member = 0                                   \* whatever is accepted is canonical and a member
  /\ CASE CN!Expected(r.fmt, r.class) = "accept" -> r.accepted = r.total /\ r.roundtrip_neq = 0
       [] CN!Expected(r.fmt, r.class) = "reject" -> r.accepted = 0
       [] OTHER -> TRUE
INSTANCE LinesTrace WITH Ok <- OkLine
ASSUME TLCSet(1, 0) /\ TLCSet(2, {}) /\ TLCSet(3, ndJsonDeserialize("trace.ndjson"))
====
