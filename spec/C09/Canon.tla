---- MODULE Canon ----
(* C09.  An encoded group element is a tuple of FIELDS (flag bits, coordinates, sign bit, spare bits, tag byte) and
   a decoder is a predicate over their classes:   Accept  <=>  every field is in its canonical class
                                                              /\ the point is on the curve
                                                              /\ it is in the prime-order subgroup wherever the library relies on that.
   The encoder only ever produces the all-canonical combination, so Accept implies "re-serialises to the same bytes".
   TLC enumerates every combination of field classes per format and checks (i) the decision is total, (ii) the image
   of the encoder is exactly the accepted set, (iii) each named single-fault class the harness concretises differs from
   a valid encoding in exactly one field, and derives the expected verdict of every harness class.            *)
EXTENDS Integers, Sequences, FiniteSets, TLC
\* field classes
Coord == {"in-range", "eq-p", "gt-p"}                       \* a coordinate as an integer: < p, = p, in (p, 2^bits)
Flags == {"ok", "bad"}                                       \* flag / tag bits consistent with the payload or not
Spare == {"zero", "set"}                                     \* unused bits of the encoding
Curve == {"on-curve", "off-curve"}
Sub   == {"in-subgroup", "outside"}                          \* outside: on the curve but not in the r-torsion (cofactor component)
Length == {"exact", "longer"}                                 \* the string is exactly one encoding, or an encoding followed by further bytes
Enc == [coord : Coord, flags : Flags, spare : Spare, curve : Curve, sub : Sub, length : Length]
\* formats: whether the format has spare bits, and whether the library relies on subgroup membership
Formats == {"bls12381-g1", "bls12381-g2", "bls-pk", "sec1-p256", "sec1-p384", "sec1-p521", "ed448-point", "ed25519-key",
            "ristretto255", "fourq-point", "curve4q-shared", "oprf-pk", "mlkem-ek", "eddsa-scheme-key", "xkem-key"}
NeedsSubgroup(f) == f \in {"bls12381-g1", "bls12381-g2", "bls-pk", "sec1-p256", "sec1-p384", "sec1-p521", "ristretto255", "oprf-pk", "curve4q-shared"}
Accept(f, e) == /\ e.coord = "in-range" /\ e.flags = "ok" /\ e.spare = "zero" /\ e.curve = "on-curve" /\ e.length = "exact"
                /\ (NeedsSubgroup(f) => e.sub = "in-subgroup")
Canonical == [coord |-> "in-range", flags |-> "ok", spare |-> "zero", curve |-> "on-curve", sub |-> "in-subgroup", length |-> "exact"]
EncoderImage == {Canonical}
\* harness classes -> the encoding they denote (single faults) and the verdict the decision gives
ClassEnc(c) == CASE c = "valid" -> Canonical
                 [] c = "coord-eq-p" -> [Canonical EXCEPT !.coord = "eq-p"]
                 [] c = "coord-gt-p" -> [Canonical EXCEPT !.coord = "gt-p"]
                 [] c = "bad-flags" -> [Canonical EXCEPT !.flags = "bad"]
                 [] c = "spare-bits" -> [Canonical EXCEPT !.spare = "set"]
                 [] c = "off-curve" -> [Canonical EXCEPT !.curve = "off-curve"]
                 [] c = "outside-subgroup" -> [Canonical EXCEPT !.sub = "outside"]
                 [] c = "trailing" -> [Canonical EXCEPT !.length = "longer"]
Classes == {"valid", "coord-eq-p", "coord-gt-p", "bad-flags", "spare-bits", "off-curve", "outside-subgroup", "trailing"}
Expected(f, c) == IF c \in {"bitflip", "random"} THEN "consistent"           \* validity unknown: only Accept => canonical /\ member is required
                  ELSE IF Accept(f, ClassEnc(c)) THEN "accept" ELSE "reject"
VARIABLES fmt, enc, verdict
Init == fmt \in Formats /\ enc \in Enc /\ verdict = "none"
Decode == verdict = "none" /\ verdict' = (IF Accept(fmt, enc) THEN "accept" ELSE "reject") /\ UNCHANGED <<fmt, enc>>
Spec == Init /\ [][Decode]_<<fmt, enc, verdict>>
AcceptOnlyCanonicalMember == verdict = "accept" => (enc.coord = "in-range" /\ enc.flags = "ok" /\ enc.spare = "zero" /\ enc.curve = "on-curve" /\ enc.length = "exact"
                                                   /\ (NeedsSubgroup(fmt) => enc.sub = "in-subgroup"))
EncoderImageAccepted == (verdict # "none" /\ enc \in EncoderImage) => verdict = "accept"
SingleFault == \A c \in Classes \ {"valid"} : Cardinality({k \in DOMAIN Canonical : ClassEnc(c)[k] # Canonical[k]}) = 1
RejectsEveryFault == \A f \in Formats, c \in Classes \ {"valid", "outside-subgroup"} : Expected(f, c) = "reject"
ASSUME SingleFault /\ RejectsEveryFault
====
