---- MODULE Policy ----
(* C20.  The tkn20 policy language and the scheme's satisfaction semantics, written independently
   of the parser: formulas are trees; negation is pushed to the leaves (De Morgan); a leaf holds
   only when its label is PRESENT in the attribute set, with an equal value for a positive leaf and
   a different value for a negated one.                                                         *)
EXTENDS Integers, Sequences, FiniteSets
Labels == {"a", "b"}
Vals   == {"x", "y"}
AVals  == {"none", "x", "y", "z"}              \* what an attribute set may assign to a label
Ats    == [Labels -> AVals]

Leaves == { [k |-> "leaf", l |-> l, v |-> v] : l \in Labels, v \in Vals }
WithNot(S) == S \cup { [k |-> "not", c |-> f] : f \in S }
Bin(S, T) == { [k |-> op, a |-> f, b |-> g] : op \in {"and", "or"}, f \in S, g \in T }
F1 == WithNot(Leaves)                                    \* 8
F2 == WithNot(Bin(F1, F1))                               \* 256
F3 == WithNot(Bin(F2, F1) \cup Bin(F1, F2))              \* 16 384 (thorough)
Upto(n) == IF n = 1 THEN F1 ELSE IF n = 2 THEN F1 \cup F2 ELSE F1 \cup F2 \cup F3

RECURSIVE Ev(_,_,_)
Ev(f, at, neg) ==
  CASE f.k = "leaf" -> (at[f.l] # "none" /\ ((at[f.l] = f.v) # neg))
    [] f.k = "not"  -> Ev(f.c, at, ~neg)
    [] f.k = "and"  -> IF neg THEN Ev(f.a, at, neg) \/ Ev(f.b, at, neg) ELSE Ev(f.a, at, neg) /\ Ev(f.b, at, neg)
    [] f.k = "or"   -> IF neg THEN Ev(f.a, at, neg) /\ Ev(f.b, at, neg) ELSE Ev(f.a, at, neg) \/ Ev(f.b, at, neg)
Sat(f, at) == Ev(f, at, FALSE)

\* negation normal form, as the parser produces it (nleaf = negated leaf)
RECURSIVE NNF(_,_)
NNF(f, neg) ==
  CASE f.k = "leaf" -> [k |-> IF neg THEN "nleaf" ELSE "leaf", l |-> f.l, v |-> f.v]
    [] f.k = "not"  -> NNF(f.c, ~neg)
    [] f.k = "and"  -> [k |-> IF neg THEN "or" ELSE "and", a |-> NNF(f.a, neg), b |-> NNF(f.b, neg)]
    [] f.k = "or"   -> [k |-> IF neg THEN "and" ELSE "or", a |-> NNF(f.a, neg), b |-> NNF(f.b, neg)]
RECURSIVE EvN(_,_)                      \* monotone evaluation of a normal form
EvN(g, at) ==
  CASE g.k = "leaf"  -> at[g.l] # "none" /\ at[g.l] = g.v
    [] g.k = "nleaf" -> at[g.l] # "none" /\ at[g.l] # g.v
    [] g.k = "and"   -> EvN(g.a, at) /\ EvN(g.b, at)
    [] g.k = "or"    -> EvN(g.a, at) \/ EvN(g.b, at)
\* classical two-valued reading (absent label = leaf false, "not" = complement): NOT what the scheme means
RECURSIVE Naive(_,_)
Naive(f, at) ==
  CASE f.k = "leaf" -> at[f.l] = f.v
    [] f.k = "not"  -> ~Naive(f.c, at)
    [] f.k = "and"  -> Naive(f.a, at) /\ Naive(f.b, at)
    [] f.k = "or"   -> Naive(f.a, at) \/ Naive(f.b, at)

RECURSIVE Str(_)                         \* printer: single spaces, lower-case keywords, full parentheses
Str(f) == CASE f.k = "leaf" -> f.l \o ":" \o f.v
            [] f.k = "not"  -> "not (" \o Str(f.c) \o ")"
            [] OTHER        -> "(" \o Str(f.a) \o " " \o f.k \o " " \o Str(f.b) \o ")"

NNFPreserves(S) == \A f \in S, at \in Ats : EvN(NNF(f, FALSE), at) = Sat(f, at)
NaiveDiffers(S) == \E f \in S, at \in Ats : Naive(f, at) # Sat(f, at)       \* the presence rule matters
MissingLabelNeverHelps(S) ==                                                  \* monotone in presence
  \A f \in S, at \in Ats, l \in Labels : Sat(f, [at EXCEPT ![l] = "none"]) => (\E v \in AVals : TRUE) /\
     (\A g \in {NNF(f, FALSE)} : EvN(g, [at EXCEPT ![l] = "none"]) => \E v \in AVals \ {"none"} : EvN(g, [at EXCEPT ![l] = v]))
====
