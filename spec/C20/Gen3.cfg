CONSTANT MaxLeaves = 3
