---- MODULE Trace_CpAbe ----
(* Every line of trace.ndjson is what the real tkn20 code answered for one (policy, attribute set):
   Satisfaction, Satisfaction after String()->FromString, CouldDecrypt, the policy extracted from the
   ciphertext, and Decrypt ("msg" = exactly the message, "err", "other" = some other plaintext).
   A line is consumed only if those answers are the ones the Policy semantics give.            *)
EXTENDS Policy, TLC, Json
VARIABLES l, bad
Tr == ndJsonDeserialize("trace.ndjson")
AtOf(r) == [lb \in Labels |-> r[lb]]
OkPair(f, r) == LET e == Sat(f, AtOf(r.at)) IN
  /\ r.sat = e /\ r.sat_rt = e
  /\ r.could \in {"skip", IF e THEN "yes" ELSE "no"}
  /\ r.extracted \in {"skip", IF e THEN "yes" ELSE "no"}      \* Satisfaction of the policy extracted from the ciphertext
  /\ r.dec \in {"skip", IF e THEN "msg" ELSE "err"}
OkTamper(f, r) == r.dec \in ({"err"} \cup (IF Sat(f, AtOf(r.at)) THEN {"msg"} ELSE {}))
Ok(ln) == \A i \in 1..Len(ln.rows) : IF ln.ev = "pol" THEN OkPair(ln.f, ln.rows[i]) ELSE OkTamper(ln.f, ln.rows[i])
Init == l = 1 /\ bad = {}
Next == l <= Len(Tr) /\ l' = l + 1 /\ bad' = IF Ok(Tr[l]) THEN bad ELSE bad \cup {l}     \* lines are independent: keep judging
Spec == Init /\ [][Next]_<<l, bad>>
ASSUME TLCSet(1, 0) /\ TLCSet(2, {})
HighWater == IF l > TLCGet(1) THEN TLCSet(1, l) /\ TLCSet(2, bad) ELSE TRUE
Verdict == JsonSerialize("verdict.json", [consumed |-> TLCGet(1) - 1, total |-> Len(Tr), bad |-> TLCGet(2)])
====
