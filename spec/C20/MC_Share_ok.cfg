CONSTANTS Q = 3
MaxGates = 3
Deviation = "none"
