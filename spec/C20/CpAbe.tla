---- MODULE CpAbe ----
(* C20.  The CP-ABE decryption machine: Setup is implicit; Encrypt, KeyGen, Reparse (print/parse or
   marshal/unmarshal of the policy), Tamper (any alteration of the ciphertext) and Decrypt.      *)
EXTENDS Policy, TLC
CONSTANT MaxLeaves
VARIABLES pol,     \* policy as the encryptor wrote it
          enc,     \* policy inside the ciphertext (normal form) or "none"
          at,      \* attribute assignment of the key
          haskey, tampered,
          out      \* "none" | "msg" | "err"
vars == <<pol, enc, at, haskey, tampered, out>>
Init == pol \in Upto(MaxLeaves) /\ at \in Ats /\ enc = [k |-> "none"] /\ haskey = FALSE /\ tampered = FALSE /\ out = "none"
Encrypt == enc.k = "none" /\ enc' = NNF(pol, FALSE) /\ UNCHANGED <<pol, at, haskey, tampered, out>>
KeyGen  == ~haskey /\ haskey' = TRUE /\ UNCHANGED <<pol, enc, at, tampered, out>>
Tamper  == enc.k # "none" /\ ~tampered /\ out = "none" /\ tampered' = TRUE /\ UNCHANGED <<pol, enc, at, haskey, out>>
Decrypt == /\ enc.k # "none" /\ haskey /\ out = "none"
           /\ out' \in IF tampered THEN {"err"} \cup (IF EvN(enc, at) THEN {"msg"} ELSE {})   \* never another message
                       ELSE {IF EvN(enc, at) THEN "msg" ELSE "err"}
           /\ UNCHANGED <<pol, enc, at, haskey, tampered>>
Next == Encrypt \/ KeyGen \/ Tamper \/ Decrypt
Spec == Init /\ [][Next]_vars
AccessControl == out = "msg" => Sat(pol, at)                          \* only satisfying keys ever get the message
Complete      == (out # "none" /\ ~tampered) => (out = "msg" <=> Sat(pol, at))
PredicatesAgree == enc.k # "none" => (EvN(enc, at) = Sat(pol, at))     \* could-decrypt (from ct) = satisfaction (from policy)
====
