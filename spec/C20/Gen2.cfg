CONSTANT MaxLeaves = 2
