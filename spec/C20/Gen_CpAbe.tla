---- MODULE Gen_CpAbe ----
EXTENDS Policy, TLC, Json, SequencesExt
CONSTANT MaxLeaves
Rows == { [f |-> f, p |-> Str(f)] : f \in Upto(MaxLeaves) }
ASSUME JsonSerialize("policies.json", SetToSeq(Rows))
====
