---- MODULE ShareTree ----
(* C20.  The secret sharing over a monotone formula that tkn20 encrypts with (Formula.share): the output wire carries the secret k; going
   down, an AND gate gives one input a fresh random value r and the other k_out - r, an OR gate gives both inputs k_out; the shares of the
   formula's inputs go into the ciphertext components of the corresponding policy leaves.  What makes this access control is
       Correct : the inputs of a satisfying set determine k (sum along a satisfying assignment), and
       Secret  : for a set of inputs that does NOT satisfy the formula, the distribution of their shares over the random values is the
                 same for every secret - they carry no information about k.
   Both are checked here for EVERY formula with up to three gates over the toy field Z_Q, every secret, every set of inputs, by
   enumerating all random values.  Deviation = "in0-gets-out" is the variant in which the AND gate hands its output value to the first input and
   zero to the second (a subtraction written into the wrong register): Correct still holds - honest decryption works - and Secret fails.
   Trace_Share.tla holds the real Formula.share to the same gate rules on recorded runs. *)
EXTENDS Integers, FiniteSets, Sequences, TLC
CONSTANTS Q, MaxGates, Deviation
Leaf(i) == [c |-> "leaf", i |-> i]
\* formulas: binary trees of "and" / "or" with leaves numbered left to right 1..n+1 (inputs are not repeated)
RECURSIVE Trees(_, _)
Trees(n, first) ==          \* trees with n gates whose leaves are numbered first .. first + n
  IF n = 0 THEN {Leaf(first)}
  ELSE UNION { { [c |-> op, a |-> l, b |-> r] : op \in {"and", "or"}, l \in Trees(nl, first), r \in Trees(n - 1 - nl, first + nl + 1) } : nl \in 0..(n - 1) }
Formulas == UNION { Trees(n, 1) : n \in 1..MaxGates }
RECURSIVE NLeaves(_), NAnd(_), Sat(_, _), Shares(_, _, _, _)
NLeaves(f) == IF f.c = "leaf" THEN 1 ELSE NLeaves(f.a) + NLeaves(f.b)
NAnd(f) == IF f.c = "leaf" THEN 0 ELSE (IF f.c = "and" THEN 1 ELSE 0) + NAnd(f.a) + NAnd(f.b)
Sat(f, S) == IF f.c = "leaf" THEN f.i \in S ELSE IF f.c = "and" THEN Sat(f.a, S) /\ Sat(f.b, S) ELSE Sat(f.a, S) \/ Sat(f.b, S)
\* Shares(f, v, rs, j): the function leaf -> share when wire f carries v; rs is the sequence of random values, j the index of the next one
\* (the AND gates of f.a use rs[j+1 ..], those of f.b the ones after)
Shares(f, v, rs, j) ==
  IF f.c = "leaf" THEN (f.i :> v)
  ELSE IF f.c = "or" THEN Shares(f.a, v, rs, j) @@ Shares(f.b, v, rs, j + NAnd(f.a))
  ELSE LET r == rs[j]
           va == IF Deviation = "in0-gets-out" THEN v ELSE r
           vb == IF Deviation = "in0-gets-out" THEN 0 ELSE (v - r) % Q
       IN Shares(f.a, va, rs, j + 1) @@ Shares(f.b, vb, rs, j + 1 + NAnd(f.a))
Rand(f) == [1..NAnd(f) -> 0..(Q - 1)]
\* reconstruction along a satisfying assignment
RECURSIVE Recon(_, _, _)
Recon(f, S, sh) == IF f.c = "leaf" THEN sh[f.i]
                   ELSE IF f.c = "or" THEN (IF Sat(f.a, S) THEN Recon(f.a, S, sh) ELSE Recon(f.b, S, sh))
                   ELSE (Recon(f.a, S, sh) + Recon(f.b, S, sh)) % Q
Restrict(sh, S) == [i \in S |-> sh[i]]
Correct == \A f \in Formulas : \A S \in SUBSET (1..NLeaves(f)) : Sat(f, S) =>
              \A k \in 0..(Q - 1) : \A rs \in Rand(f) : Recon(f, S, Shares(f, k, rs, 1)) = k
\* the number of random choices that lead to each restricted share vector does not depend on the secret
Dist(f, S, k) == LET vs == { Restrict(Shares(f, k, rs, 1), S) : rs \in Rand(f) }
                 IN [v \in vs |-> Cardinality({ rs \in Rand(f) : Restrict(Shares(f, k, rs, 1), S) = v })]
Secret == \A f \in Formulas : \A S \in SUBSET (1..NLeaves(f)) : ~Sat(f, S) => \A k \in 1..(Q - 1) : Dist(f, S, k) = Dist(f, S, 0)
ASSUME PrintT(<<"formulas", Cardinality(Formulas)>>)
ASSUME Correct
ASSUME Secret
====
