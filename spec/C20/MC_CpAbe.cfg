SPECIFICATION Spec
CONSTANT MaxLeaves = 2
INVARIANTS AccessControl Complete PredicatesAgree
CHECK_DEADLOCK FALSE
