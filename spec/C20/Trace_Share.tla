---- MODULE Trace_Share ----
(* C20.  Recorded runs of tkn20's Formula.share - the secret sharing over the policy formula - held to the gate rules of ShareTree.tla
   (Deviation = "none"), over the real field (the BLS12-381 scalar field) and real formulas: each line carries the formula's gates in the
   order share() processes them, the secret matrix, the random matrices in the order they were drawn (the recorder replays the random
   source), and the shares of the input wires the function returned.  TLC recomputes every wire top-down - the output wire carries the
   secret; an AND gate gives its first input the next random matrix r and its second input out - r; an OR gate gives both inputs out -
   and requires the returned input shares to be exactly those.  A sharing that hands the secret itself to one input of an AND gate and zero
   to the other still decrypts honestly, and is rejected here. *)
EXTENDS BigNat, FieldConsts, Integers, Sequences, TLC, Json
VARIABLES l, bad
R == Modulus("bls12381scalar")
SubMod(a, b) == IF Less(a, b) THEN Sub(Add(a, R), b) ELSE Sub(a, b)           \* a, b below R
RECURSIVE MatSub(_, _, _, _)
MatSub(a, b, i, acc) == IF i > Len(a) THEN acc ELSE MatSub(a, b, i + 1, Append(acc, Norm(SubMod(a[i], b[i]))))
RECURSIVE NormAll(_, _, _)
NormAll(a, i, acc) == IF i > Len(a) THEN acc ELSE NormAll(a, i + 1, Append(acc, Norm(a[i])))
NM(a) == NormAll(a, 1, <<>>)
\* wires: a function wire number -> matrix, filled from the last gate to the first; d = index of the next random matrix
RECURSIVE Down(_, _, _, _)
Down(r, g, wires, d) ==
  IF g = 0 THEN wires
  ELSE LET gate == r.gates[g]   out == wires[gate[4]]
       IN IF gate[1] = 0      \* AND
          THEN Down(r, g - 1, (gate[2] :> NM(r.draws[d])) @@ (gate[3] :> MatSub(out, NM(r.draws[d]), 1, <<>>)) @@ wires, d + 1)
          ELSE Down(r, g - 1, (gate[2] :> out) @@ (gate[3] :> out) @@ wires, d)
OkLine(r) ==
  LET n == Len(r.gates)
      wires == Down(r, n, ((2 * n) :> NM(r.k)), 1)
  IN /\ r.panics = 0 /\ Len(r.shares) = n + 1
     /\ \A g \in 1..n : r.gates[g][1] \in {0, 1}
     /\ \A i \in 1..(n + 1) : NM(r.shares[i]) = wires[i - 1]
INSTANCE LinesTrace WITH Ok <- OkLine
ASSUME TLCSet(1, 0) /\ TLCSet(2, {}) /\ TLCSet(3, ndJsonDeserialize("trace.ndjson"))
====
