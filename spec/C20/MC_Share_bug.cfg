CONSTANTS Q = 3
MaxGates = 3
Deviation = "in0-gets-out"
