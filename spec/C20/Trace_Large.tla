---- MODULE Trace_Large ----
(* C20.  Policies with many leaves (the ciphertext carries its policy and its per-leaf components behind 16-bit length fields): whatever
   Encrypt ACCEPTS must then behave like any other policy - the satisfying key could decrypt and does decrypt.  Encrypt may refuse a policy
   that does not fit; it may not produce a ciphertext nobody can open. *)
EXTENDS Integers, Sequences, TLC, Json
VARIABLES l, bad
\* "print": a policy of 6 to 9 leaves that has been used once (Satisfaction re-sorts its gates) is printed and parsed again: the two must
\* answer alike on every sampled attribute set
\* (and the query changed nothing: the used policy equals an unused one parsed from the same text, and the policy parsed from its printed
\* form equals it).  "reject": a policy followed by further tokens is not in the language and is refused.
OkLine(r) == IF r.ev = "print" THEN r.panics = 0 /\ r.reparse_ok /\ r.agree /\ r.equal_kept /\ r.rt_equal
             ELSE IF r.ev = "reject" THEN r.panics = 0 /\ ~r.accepted
             \* "longval": values of r.len characters differing in the last one: a leaf holds for the equal value only, its negation for the other only
             \* "bigkey": an attribute key too large for the 16-bit length fields of its format: refused (encrypt_err), or it survives marshal/unmarshal
             ELSE IF r.ev = "bigkey" THEN r.panics = 0 /\ (r.encrypt_err \/ r.rt_equal)
             ELSE IF r.ev = "longval" THEN r.panics = 0 /\ r.sat_same /\ ~r.sat_other /\ ~r.neg_same /\ r.neg_other
             ELSE /\ r.panics = 0 /\ r.policy_ok /\ r.satisfies
                  /\ (r.encrypt_err \/ (r.could_decrypt /\ r.decrypt_ok))
INSTANCE LinesTrace WITH Ok <- OkLine
ASSUME TLCSet(1, 0) /\ TLCSet(2, {}) /\ TLCSet(3, ndJsonDeserialize("trace.ndjson"))
====
