---- MODULE MC_Policy ----
EXTENDS Policy, TLC
ASSUME NNFPreserves(F1 \cup F2)
ASSUME NaiveDiffers(F1)
ASSUME Cardinality(F1) = 8 /\ Cardinality(F2) = 256
====
