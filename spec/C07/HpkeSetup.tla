---- MODULE HpkeSetup ----
(* C07, second part: the setup state machine over the RFC 9180 terms of HpkeTerms.tla (sender, receiver with one
   deviating input); outcomes are decided SYMBOLICALLY - the receiver's context equals the sender's iff the two
   key-schedule terms are equal after normalising DH commutation.                                          *)
EXTENDS HpkeTerms
\* ---- setup state machine with one deviation at the receiver
Devs == {"none", "skR", "info", "psk", "psk_id", "mode", "pkS", "enc"}
NoCtx == [t |-> "none"]
ErrCtx == [t |-> "error"]
VARIABLES sc, stage, sctx, rctx
vars == <<sc, stage, sctx, rctx>>
Init == /\ sc \in [kem : {16, 32}, kdf : {1}, aead : {1, 3}, mode : Modes, pskp : PskPresence, dev : Devs]
        /\ stage = "start" /\ sctx = NoCtx /\ rctx = NoCtx
Sub(dev, what, name) == IF dev = what THEN Var(name \o "_other") ELSE Var(name)
SenderSetup ==
  /\ stage = "start"
  /\ IF ~PskInputsOk(sc.mode, sc.pskp) THEN sctx' = ErrCtx
     ELSE LET k == sc.kem  m == sc.mode
              pkR == Pk(KemGroup(k), DeriveSk(k, Var("ikmR")))
          IN sctx' = KeySchedule(k, sc.kdf, sc.aead, m, EncapSecret(k, m, Var("ikmE"), pkR, DeriveSk(k, Var("ikmS"))),
                                 Var("info"), PskTerm(m), PskIdTerm(m))
  /\ stage' = "sent" /\ UNCHANGED <<sc, rctx>>
ReceiverSetup ==
  /\ stage = "sent" /\ sctx # ErrCtx
  /\ LET k == sc.kem   d == sc.dev
         m == IF d = "mode" THEN (sc.mode + 2) % 4 ELSE sc.mode              \* flips the auth bit, keeps the psk bit
         skR == DeriveSk(k, Sub(d, "skR", "ikmR"))
         enc == IF d = "enc" THEN Var("enc_other") ELSE EncapEnc(k, Var("ikmE"))
         pkS == Pk(KemGroup(k), DeriveSk(k, Sub(d, "pkS", "ikmS")))
         psk == IF IsPsk(m) THEN Sub(d, "psk", "psk") ELSE Empty
         pid == IF IsPsk(m) THEN Sub(d, "psk_id", "psk_id") ELSE Empty
     IN rctx' = KeySchedule(k, sc.kdf, sc.aead, m, DecapSecret(k, m, skR, enc, pkS), Sub(d, "info", "info"), psk, pid)
  /\ stage' = "received" /\ UNCHANGED <<sc, sctx>>
Next == SenderSetup \/ ReceiverSetup
Spec == Init /\ [][Next]_vars
\* DH commutes: normalise DH(g, DeriveSk(x), Pk(g, DeriveSk(y))) so that sender and receiver terms can be compared
RECURSIVE Norm(_)
Norm(x) ==
  CASE x.t \in {"lit", "bytes", "var", "i2osp", "none", "error"} -> x
    [] x.t = "cat" -> [t |-> "cat", xs |-> [i \in DOMAIN x.xs |-> Norm(x.xs[i])]]
    [] x.t = "hkdf-extract" -> [t |-> x.t, h |-> x.h, salt |-> Norm(x.salt), ikm |-> Norm(x.ikm)]
    [] x.t = "hkdf-expand" -> [t |-> x.t, h |-> x.h, prk |-> Norm(x.prk), info |-> Norm(x.info), n |-> x.n]
    [] x.t = "pk" -> [t |-> "pk", g |-> x.g, sk |-> Norm(x.sk)]
    [] x.t = "first-valid-scalar" -> [t |-> x.t, g |-> x.g, mask |-> x.mask, cand |-> Norm(x.cand)]
    [] x.t = "i2osp-var" -> x
    [] x.t = "dh" -> IF x.pk.t = "pk" THEN [t |-> "dh-sym", g |-> x.g, ends |-> {Norm(x.sk), Norm(x.pk.sk)}]
                     ELSE [t |-> "dh", g |-> x.g, sk |-> Norm(x.sk), pk |-> Norm(x.pk)]
NormCtx(c) == IF "t" \in DOMAIN c THEN c ELSE [key |-> Norm(c.key), base_nonce |-> Norm(c.base_nonce), exp |-> Norm(c.exp)]
SameCtx == NormCtx(rctx) = NormCtx(sctx)
\* the receiver derives the sender's context iff nothing deviates (deviations that do not apply to the mode are vacuous)
DevApplies == \/ sc.dev \in {"skR", "info", "mode", "enc"}
              \/ (sc.dev = "pkS" /\ IsAuth(sc.mode)) \/ (sc.dev \in {"psk", "psk_id"} /\ IsPsk(sc.mode))
ReceiverAgreesIffHonest == stage = "received" => (SameCtx <=> (sc.dev = "none" \/ ~DevApplies))
PskRule == stage = "sent" => ((sctx = ErrCtx) <=> ~PskInputsOk(sc.mode, sc.pskp))
====
