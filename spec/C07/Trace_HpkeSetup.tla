---- MODULE Trace_HpkeSetup ----
(* Judges what real hpke Sender/Receiver objects did in one setup scenario.  The *_eq fields say whether a
   value produced by circl equals the RFC 9180 term of HpkeSetup.tla evaluated by the harness.       *)
EXTENDS Integers, Sequences, TLC, Json
VARIABLES l, bad
HS == INSTANCE HpkeTerms
OkLine(r) ==
  /\ r.sender_err = ~HS!PskInputsOk(r.mode, r.pskp)                 \* RFC 9180 section 5.1 VerifyPSKInputs
  /\ ~r.sender_err =>
       /\ r.keys_eq /\ r.enc_eq /\ r.key_eq /\ r.nonce_eq /\ r.exp_eq /\ r.ct_eq /\ r.exports_eq
       /\ (r.dev = "none" => r.recv_ok /\ r.opens /\ r.rexport_eq /\ r.opens_all)
       /\ (r.dev # "none" => ~r.opens /\ (r.recv_ok => ~r.rexport_eq))
       /\ (r.dev = "pkS-low-order" => ~r.recv_ok)      \* an all-zero Diffie-Hellman value with the sender identity is an error (RFC 9180 7.1.4)
INSTANCE LinesTrace WITH Ok <- OkLine
ASSUME TLCSet(1, 0) /\ TLCSet(2, {}) /\ TLCSet(3, ndJsonDeserialize("trace.ndjson"))
====
