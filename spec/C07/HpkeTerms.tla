---- MODULE HpkeTerms ----
(* C07.  RFC 9180 sections 4-5 as terms over Terms.tla: suite ids, LabeledExtract/Expand, DHKEM
   Encap/AuthEncap and DeriveKeyPair, KeySchedule, Seal nonce, Export; plus the setup state machine
   (sender, receiver with one deviating input) whose outcomes are decided SYMBOLICALLY: the receiver's
   context equals the sender's iff the two key-schedule terms are syntactically equal.            *)
EXTENDS Terms, FiniteSets, TLC
\* ---- algorithm tables (RFC 9180 section 7)
KemIds == {16, 17, 18, 32, 33}                                   \* the five DHKEMs (PQ/hybrid KEM ids are black boxes)
KemGroup(k) == CASE k = 16 -> "P256" [] k = 17 -> "P384" [] k = 18 -> "P521" [] k = 32 -> "X25519" [] k = 33 -> "X448"
KemHash(k)  == CASE k = 16 -> "SHA256" [] k = 17 -> "SHA384" [] k = 18 -> "SHA512" [] k = 32 -> "SHA256" [] k = 33 -> "SHA512"
Nsecret(k)  == CASE k = 16 -> 32 [] k = 17 -> 48 [] k = 18 -> 64 [] k = 32 -> 32 [] k = 33 -> 64
Nsk(k)      == CASE k = 16 -> 32 [] k = 17 -> 48 [] k = 18 -> 66 [] k = 32 -> 32 [] k = 33 -> 56
Bitmask(k)  == CASE k = 16 -> 255 [] k = 17 -> 255 [] k = 18 -> 1 [] OTHER -> 255
KdfIds == {1, 2, 3}
KdfHash(d) == CASE d = 1 -> "SHA256" [] d = 2 -> "SHA384" [] d = 3 -> "SHA512"
Nh(d) == CASE d = 1 -> 32 [] d = 2 -> 48 [] d = 3 -> 64
AeadIds == {1, 2, 3}
AeadName(a) == CASE a = 1 -> "AES-128-GCM" [] a = 2 -> "AES-256-GCM" [] a = 3 -> "ChaCha20Poly1305"
Nk(a) == CASE a = 1 -> 16 [] a = 2 -> 32 [] a = 3 -> 32
Nn == 12
Modes == {0, 1, 2, 3}                                             \* base, psk, auth, auth_psk
IsAuth(m) == m \in {2, 3}
IsPsk(m) == m \in {1, 3}

\* ---- labeled KDF (section 4)
LabeledExtract(h, sid, salt, label, ikm) == HkdfExtract(h, salt, Cat(<<Lit("HPKE-v1"), sid, Lit(label), ikm>>))
LabeledExpand(h, sid, prk, label, info, L) == HkdfExpand(h, prk, Cat(<<I2OSP(L, 2), Lit("HPKE-v1"), sid, Lit(label), info>>), L)
KemSuite(k) == Cat(<<Lit("KEM"), I2OSP(k, 2)>>)
HpkeSuite(k, d, a) == Cat(<<Lit("HPKE"), I2OSP(k, 2), I2OSP(d, 2), I2OSP(a, 2)>>)

\* ---- DHKEM (section 4.1, 7.1.3)
DeriveSk(k, ikm) ==
  LET h == KemHash(k)  sid == KemSuite(k)
      prk == LabeledExtract(h, sid, Empty, "dkp_prk", ikm)
  IN IF k \in {32, 33} THEN LabeledExpand(h, sid, prk, "sk", Empty, Nsk(k))
     ELSE FirstValidScalar(KemGroup(k), Bitmask(k), LabeledExpand(h, sid, prk, "candidate", I2OSPVar("$i", 1), Nsk(k)))
ExtractAndExpand(k, dh, kemctx) ==
  LET h == KemHash(k)  sid == KemSuite(k)
  IN LabeledExpand(h, sid, LabeledExtract(h, sid, Empty, "eae_prk", dh), "shared_secret", kemctx, Nsecret(k))
\* sender side: ikmE, pkR (, skS)          receiver side: skR, enc (, pkS)
EncapEnc(k, ikmE) == Pk(KemGroup(k), DeriveSk(k, ikmE))
EncapSecret(k, m, ikmE, pkR, skS) ==
  LET g == KemGroup(k)  skE == DeriveSk(k, ikmE)  enc == Pk(g, skE)
  IN IF IsAuth(m) THEN ExtractAndExpand(k, Cat(<<DH(g, skE, pkR), DH(g, skS, pkR)>>), Cat(<<enc, pkR, Pk(g, skS)>>))
     ELSE ExtractAndExpand(k, DH(g, skE, pkR), Cat(<<enc, pkR>>))
DecapSecret(k, m, skR, enc, pkS) ==
  LET g == KemGroup(k)
  IN IF IsAuth(m) THEN ExtractAndExpand(k, Cat(<<DH(g, skR, enc), DH(g, skR, pkS)>>), Cat(<<enc, Pk(g, skR), pkS>>))
     ELSE ExtractAndExpand(k, DH(g, skR, enc), Cat(<<enc, Pk(g, skR)>>))

\* ---- key schedule (section 5.1)
KeySchedule(k, d, a, m, ss, info, psk, pskid) ==
  LET h == KdfHash(d)  sid == HpkeSuite(k, d, a)
      ctx == Cat(<<I2OSP(m, 1), LabeledExtract(h, sid, Empty, "psk_id_hash", pskid), LabeledExtract(h, sid, Empty, "info_hash", info)>>)
      sec == LabeledExtract(h, sid, ss, "secret", psk)
  IN [key |-> LabeledExpand(h, sid, sec, "key", ctx, Nk(a)),
      base_nonce |-> LabeledExpand(h, sid, sec, "base_nonce", ctx, Nn),
      exp |-> LabeledExpand(h, sid, sec, "exp", ctx, Nh(d))]
SealFirst(a, ks, aad, pt) == Aead(AeadName(a), ks.key, ks.base_nonce, aad, pt)        \* seq = 0: nonce = base_nonce
ExportTerm(k, d, a, ks, ectx, L) == LabeledExpand(KdfHash(d), HpkeSuite(k, d, a), ks.exp, "sec", ectx, L)

\* ---- PSK input rule (section 5.1 VerifyPSKInputs); "none" / "both" / "psk-only" / "id-only"
PskPresence == {"none", "both", "psk-only", "id-only"}
PskInputsOk(m, p) == IF IsPsk(m) THEN p = "both" ELSE p = "none"

\* ---- what one complete suite/mode looks like for the harness (all inputs are Vars)
PskTerm(m) == IF IsPsk(m) THEN Var("psk") ELSE Empty
PskIdTerm(m) == IF IsPsk(m) THEN Var("psk_id") ELSE Empty
ExportLens(d) == {0, 1, 32, Nh(d), 255 * Nh(d)}
CtxTerms(k, d, a, m) ==         \* everything derived from the shared secret, which is bound to Var("ss")
  LET ks == KeySchedule(k, d, a, m, Var("ss"), Var("info"), PskTerm(m), PskIdTerm(m))
  IN [key |-> ks.key, base_nonce |-> ks.base_nonce, exp |-> ks.exp,
      ct0 |-> SealFirst(a, [key |-> Var("key"), base_nonce |-> Var("base_nonce")], Var("aad"), Var("pt")),
      exports |-> [L \in ExportLens(d) |-> ExportTerm(k, d, a, [exp |-> Var("exp")], Var("ectx"), L)]]
SuiteTerms(k, d, a, m) ==
  LET skS == DeriveSk(k, Var("ikmS"))
      pkR == Pk(KemGroup(k), DeriveSk(k, Var("ikmR")))
  IN [kem |-> k, kdf |-> d, aead |-> a, mode |-> m, blackbox |-> FALSE,
      pkR |-> pkR, skR |-> DeriveSk(k, Var("ikmR")), pkS |-> Pk(KemGroup(k), skS),
      enc |-> EncapEnc(k, Var("ikmE")),
      ss |-> EncapSecret(k, m, Var("ikmE"), Var("pkR"), Var("skS")),      \* harness binds pkR, skS to the evaluated terms above
      ctx |-> CtxTerms(k, d, a, m)]
\* for the black-box KEMs (X25519Kyber768Draft00 = 0x0030, X-Wing = 0x647a) the shared secret is an observed input
BlackBoxTerms(k, d, a, m) == [kem |-> k, kdf |-> d, aead |-> a, mode |-> m, blackbox |-> TRUE, ctx |-> CtxTerms(k, d, a, m)]
AllSuites == { SuiteTerms(k, d, a, m) : k \in KemIds, d \in KdfIds, a \in AeadIds, m \in Modes }
             \cup { BlackBoxTerms(k, d, a, m) : k \in {48, 25722}, d \in KdfIds, a \in AeadIds, m \in {0, 1} }

====
