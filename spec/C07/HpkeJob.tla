---- MODULE HpkeJob ----
(* C07, anchor.  RFC 9180 base / PSK mode sender setup for DHKEM(X25519, HKDF-SHA256) with HKDF-SHA256 as an executable behaviour:
   DeriveKeyPair(ikmE) (LabeledExtract / LabeledExpand over HMAC-SHA-256, Sha256Ops.tla, one action per SHA-256 round), pkE = X25519(skE, 9)
   and dh = X25519(skE, pkR) (RFC 7748 ladder, one action per bit, as in MontJobs.tla), ExtractAndExpand, and the key schedule
   (psk_id_hash, info_hash, secret, key, base_nonce, exporter_secret).  Every label, suite identifier, length prefix and ordering below is
   written from the RFC.  job.json: [mode, aead, nk, ikmE, pkR, info, psk, psk_id, enc, key, base_nonce, exp]; the verdict says which of the
   library's enc / key / base_nonce / exporter secret are the RFC's. *)
EXTENDS Integers, Sequences, TLC, Json, Sha256Ops
JobIn == JsonDeserialize("job.json")
B == 4096
Max(a, b) == IF a > b THEN a ELSE b
Min(a, b) == IF a < b THEN a ELSE b
Limb(x, i) == IF i <= Len(x) THEN x[i] ELSE 0
RECURSIVE SumR(_, _, _, _, _), MulC(_, _, _, _, _), AddC(_, _, _, _, _), SubC(_, _, _, _, _)
SumR(x, y, k, i, hi) == IF i > hi THEN 0 ELSE x[i] * y[k - i + 1] + SumR(x, y, k, i + 1, hi)
Col(x, y, k) == SumR(x, y, k, Max(1, k - Len(y) + 1), Min(k, Len(x)))
MulC(x, y, k, c, acc) == IF k > Len(x) + Len(y) THEN acc
                         ELSE LET t == (IF k < Len(x) + Len(y) THEN Col(x, y, k) ELSE 0) + c
                              IN MulC(x, y, k + 1, t \div B, Append(acc, t % B))
Mul(x, y) == IF Len(x) = 0 \/ Len(y) = 0 THEN <<>> ELSE MulC(x, y, 1, 0, <<>>)
AddC(x, y, k, c, acc) == IF k > Max(Len(x), Len(y)) THEN (IF c = 0 THEN acc ELSE Append(acc, c))
   ELSE LET t == Limb(x, k) + Limb(y, k) + c IN AddC(x, y, k + 1, t \div B, Append(acc, t % B))
Add(x, y) == AddC(x, y, 1, 0, <<>>)
SubC(x, y, k, b, acc) == IF k > Max(Len(x), Len(y)) THEN <<acc, b>>
   ELSE LET t == Limb(x, k) - Limb(y, k) - b
        IN IF t < 0 THEN SubC(x, y, k + 1, 1, Append(acc, t + B)) ELSE SubC(x, y, k + 1, 0, Append(acc, t))
Sub(x, y) == SubC(x, y, 1, 0, <<>>)[1]
GE(x, y) == SubC(x, y, 1, 0, <<>>)[2] = 0
RECURSIVE IsZeroSeq(_, _), Rep(_, _, _), FixR(_, _, _, _)
IsZeroSeq(x, i) == IF i > Len(x) THEN TRUE ELSE x[i] = 0 /\ IsZeroSeq(x, i + 1)
Rep(v, n, acc) == IF n = 0 THEN acc ELSE Rep(v, n - 1, Append(acc, v))
FixR(x, k, n, acc) == IF k > n THEN acc ELSE FixR(x, k + 1, n, Append(acc, Limb(x, k)))
\* ---- the two curves.  Bits = D*12 + R;  P as digits;  FoldC = 2^Bits mod p;  A24 = (A - 2) / 4;  N = byte length
Cv(c) == IF c = "x25519"
         THEN [bits |-> 255, d |-> 21, r |-> 3, n |-> 32, nd |-> 22, a24 |-> <<2881, 29>>, foldc |-> <<19>>,
               p |-> Append(<<4077>> \o Rep(4095, 20, <<>>), 7)]                                  \* 2^255 - 19
         ELSE [bits |-> 448, d |-> 37, r |-> 4, n |-> 56, nd |-> 38, a24 |-> <<2217, 9>>,                      \* 39081
               foldc |-> Append(<<1>> \o Rep(0, 17, <<>>), 256),                                   \* 2^224 + 1 : digit 19 = 2^(224-216)
               p |-> Rep(4095, 18, <<>>) \o <<4095 - 256>> \o Rep(4095, 18, <<>>) \o <<15>>]       \* 2^448 - 2^224 - 1
RECURSIVE HiR(_, _, _, _, _)
HiR(x, c, k, n, acc) == IF k > n THEN acc
                        ELSE HiR(x, c, k + 1, n, Append(acc, (Limb(x, c.d + k) \div (2^c.r)) + ((Limb(x, c.d + 1 + k) % (2^c.r)) * (2^(12 - c.r)))))
HiBits(x, c) == HiR(x, c, 1, Max(Len(x) - c.d, 1), <<>>)
RECURSIVE LoR(_, _, _, _)
LoR(x, c, k, acc) == IF k > c.nd THEN acc ELSE LoR(x, c, k + 1, Append(acc, IF k < c.nd THEN Limb(x, k) ELSE Limb(x, c.nd) % (2^c.r)))
LoBits(x, c) == LoR(x, c, 1, <<>>)
RECURSIVE Fold(_, _)
Fold(x, c) == LET hi == HiBits(x, c) IN IF IsZeroSeq(hi, 1) THEN LoBits(x, c) ELSE Fold(Add(LoBits(x, c), Mul(hi, c.foldc)), c)
Red(x, c) == LET y == Fold(x, c) IN FixR(IF GE(y, c.p) THEN Sub(y, c.p) ELSE y, 1, c.nd, <<>>)
FMul(a, b, c) == Red(Mul(a, b), c)
FAdd(a, b, c) == Red(Add(a, b), c)
FSub(a, b, c) == Red(Add(a, Sub(c.p, b)), c)                \* a, b canonical
\* ---- bytes
ByteBit(bs, n) == IF (n \div 8) + 1 > Len(bs) THEN 0 ELSE (bs[(n \div 8) + 1] \div (2^(n % 8))) % 2
RECURSIVE LimbFromBits(_, _, _), B2L(_, _, _, _)
LimbFromBits(bs, k, b) == IF b = 12 THEN 0 ELSE ByteBit(bs, 12 * (k - 1) + b) * (2^b) + LimbFromBits(bs, k, b + 1)
B2L(bs, k, n, acc) == IF k > n THEN acc ELSE B2L(bs, k + 1, n, Append(acc, LimbFromBits(bs, k, 0)))
BytesToLimbs(bs, c) == B2L(bs, 1, c.nd, <<>>)

C25 == Cv("x25519")
FM(a, b) == FMul(a, b, C25)
FA(a, b) == FAdd(a, b, C25)
FS(a, b) == FSub(a, b, C25)
One25 == FixR(<<1>>, 1, 22, <<>>)
Zero25 == FixR(<<0>>, 1, 22, <<>>)
BitOfNat(x, i) == LET dgt == (i \div 12) + 1 IN IF dgt > Len(x) THEN 0 ELSE (x[dgt] \div (2^(i % 12))) % 2
RECURSIVE ToBytesAcc(_, _, _, _)
ToBytesAcc(x, j, n, acc) == IF j > n THEN acc
                            ELSE LET b0 == 8 * (j - 1)
                                 IN ToBytesAcc(x, j + 1, n, Append(acc, BitOfNat(x,b0) + 2*BitOfNat(x,b0+1) + 4*BitOfNat(x,b0+2) + 8*BitOfNat(x,b0+3)
                                                                + 16*BitOfNat(x,b0+4) + 32*BitOfNat(x,b0+5) + 64*BitOfNat(x,b0+6) + 128*BitOfNat(x,b0+7)))
ToBytes(x, n) == ToBytesAcc(x, 1, n, <<>>)
\* ---- RFC 9180 section 4: labels
I2(n) == <<n \div 256, n % 256>>
Version == <<72, 80, 75, 69, 45, 118, 49>>
KemSuite == <<75, 69, 77>> \o I2(32)                                                  \* "KEM" || I2OSP(0x0020, 2)
HpkeSuite == <<72, 80, 75, 69>> \o I2(32) \o I2(1) \o I2(JobIn.aead)                      \* "HPKE" || kem_id || kdf_id || aead_id
LIkm(suite, label, ikm) == Version \o suite \o label \o ikm
LInfo(suite, L, label, info) == I2(L) \o Version \o suite \o label \o info
Nk == JobIn.nk
Nn == 12
Nh == 32
\* ---- the program: HMAC steps (two hashes each) and the two ladders
Prog == <<"dkp_prk", "skE", "MUL_E", "MUL_DH", "eae_prk", "ss", "psk_id_hash", "info_hash", "secret", "key", "base_nonce", "exp", "DONE">>
VARIABLES pc, res, hs, st, ws, t, blk, phase, inner, x1, x2, z2, x3, z3, tt, swap, acc
vars == <<pc, res, hs, st, ws, t, blk, phase, inner, x1, x2, z2, x3, z3, tt, swap, acc>>
Cur == Prog[pc]
R(n) == res[n]
Enc == JobIn.enc
KsCtx == <<JobIn.mode>> \o R("psk_id_hash") \o R("info_hash")
HKey == CASE Cur = "dkp_prk" -> <<>> [] Cur = "skE" -> R("dkp_prk") [] Cur = "eae_prk" -> <<>> [] Cur = "ss" -> R("eae_prk")
          [] Cur = "psk_id_hash" -> <<>> [] Cur = "info_hash" -> <<>> [] Cur = "secret" -> R("ss")
          [] Cur \in {"key", "base_nonce", "exp"} -> R("secret")
HMsg == CASE Cur = "dkp_prk" -> LIkm(KemSuite, <<100, 107, 112, 95, 112, 114, 107>>, JobIn.ikmE)
          [] Cur = "skE" -> LInfo(KemSuite, 32, <<115, 107>>, <<>>) \o <<1>>
          [] Cur = "eae_prk" -> LIkm(KemSuite, <<101, 97, 101, 95, 112, 114, 107>>, R("dh"))
          [] Cur = "ss" -> LInfo(KemSuite, 32, <<115, 104, 97, 114, 101, 100, 95, 115, 101, 99, 114, 101, 116>>, Enc \o JobIn.pkR) \o <<1>>
          [] Cur = "psk_id_hash" -> LIkm(HpkeSuite, <<112, 115, 107, 95, 105, 100, 95, 104, 97, 115, 104>>, JobIn.psk_id)
          [] Cur = "info_hash" -> LIkm(HpkeSuite, <<105, 110, 102, 111, 95, 104, 97, 115, 104>>, JobIn.info)
          [] Cur = "secret" -> LIkm(HpkeSuite, <<115, 101, 99, 114, 101, 116>>, JobIn.psk)
          [] Cur = "key" -> LInfo(HpkeSuite, Nk, <<107, 101, 121>>, KsCtx) \o <<1>>
          [] Cur = "base_nonce" -> LInfo(HpkeSuite, Nn, <<98, 97, 115, 101, 95, 110, 111, 110, 99, 101>>, KsCtx) \o <<1>>
          [] Cur = "exp" -> LInfo(HpkeSuite, Nh, <<101, 120, 112>>, KsCtx) \o <<1>>
OutLen == CASE Cur = "key" -> Nk [] Cur = "base_nonce" -> Nn [] OTHER -> 32
IsHmac == Cur \notin {"MUL_E", "MUL_DH", "DONE"}
In == IF phase = 1 THEN HmacInner(HKey, HMsg) ELSE HmacOuter(HKey, inner)
NBlocks == Sha256PadLen(Len(In)) \div 64
LKeep == <<x1, x2, z2, x3, z3, tt, swap, acc>>
StartBlock == /\ IsHmac /\ t = -1
              /\ ws' = [i \in 1..16 |-> Block256Word(In, blk, i - 1)] /\ st' = hs /\ t' = 0 /\ UNCHANGED <<pc, res, hs, blk, phase, inner, LKeep>>
ShaStep == /\ IsHmac /\ t \in 0..63
           /\ LET w == IF t < 16 THEN ws[t + 1] ELSE NextW256(ws)
              IN /\ st' = Round256(st, w, t)
                 /\ ws' = IF t < 16 THEN ws ELSE [i \in 1..16 |-> IF i < 16 THEN ws[i + 1] ELSE w]
           /\ t' = t + 1 /\ UNCHANGED <<pc, res, hs, blk, phase, inner, LKeep>>
EndBlock == /\ IsHmac /\ t = 64
            /\ LET h2 == [i \in 1..8 |-> Add32(hs[i], st[i])]
               IN IF blk + 1 < NBlocks THEN hs' = h2 /\ blk' = blk + 1 /\ UNCHANGED <<pc, res, phase, inner>>
                  ELSE IF phase = 1 THEN inner' = Digest256(h2) /\ phase' = 2 /\ hs' = H256 /\ blk' = 0 /\ UNCHANGED <<pc, res>>
                  ELSE /\ res' = (Cur :> SubSeq(Digest256(h2), 1, OutLen)) @@ res
                       /\ pc' = pc + 1 /\ hs' = H256 /\ blk' = 0 /\ phase' = 1 /\ inner' = <<>>
            /\ t' = -1 /\ UNCHANGED <<st, ws, LKeep>>
\* ---- RFC 7748 X25519(skE, u)
HKeep == <<hs, st, ws, t, blk, phase, inner>>
SkE == R("skE")
Ks == [i \in 1..32 |-> IF i = 1 THEN SkE[1] - (SkE[1] % 8) ELSE IF i = 32 THEN (SkE[32] % 64) + 64 ELSE SkE[i]]
KBit(i) == (Ks[(i \div 8) + 1] \div (2^(i % 8))) % 2
UBytes == IF Cur = "MUL_E" THEN [i \in 1..32 |-> IF i = 1 THEN 9 ELSE 0] ELSE [i \in 1..32 |-> IF i = 32 THEN JobIn.pkR[32] % 128 ELSE JobIn.pkR[i]]
IsMul == Cur \in {"MUL_E", "MUL_DH"}
LStart == /\ IsMul /\ tt = -2
          /\ LET u == Red(BytesToLimbs(UBytes, C25), C25)
             IN x1' = u /\ x2' = One25 /\ z2' = Zero25 /\ x3' = u /\ z3' = One25
          /\ tt' = 254 /\ swap' = 0 /\ UNCHANGED <<pc, res, HKeep, acc>>
LStep == /\ IsMul /\ tt >= 0 /\ acc = <<>>
         /\ LET c == C25   kt == KBit(tt)   sw == (swap + kt) % 2
                a2 == IF sw = 1 THEN x3 ELSE x2     c2 == IF sw = 1 THEN z3 ELSE z2
                a3 == IF sw = 1 THEN x2 ELSE x3     c3 == IF sw = 1 THEN z2 ELSE z3
                Aa == FA(a2, c2)   AA == FM(Aa, Aa)   Bv == FS(a2, c2)   BB == FM(Bv, Bv)   E == FS(AA, BB)
                Cc == FA(a3, c3)   D == FS(a3, c3)    DA == FM(D, Aa)    CB == FM(Cc, Bv)
                s1 == FA(DA, CB)   d1 == FS(DA, CB)
            IN /\ x3' = FM(s1, s1) /\ z3' = FM(x1, FM(d1, d1)) /\ x2' = FM(AA, BB) /\ z2' = FM(E, FA(AA, FM(c.a24, E)))
               /\ swap' = kt
         /\ tt' = tt - 1 /\ UNCHANGED <<pc, res, HKeep, x1, acc>>
Fx == IF swap = 1 THEN x3 ELSE x2
Fz == IF swap = 1 THEN z3 ELSE z2
\* enc: the library's value is checked projectively (enc * z = x), no inversion needed
LEndE == /\ Cur = "MUL_E" /\ tt = -1
         /\ LET w == BytesToLimbs(Enc, C25)
                good == Len(Enc) = 32 /\ ~GE(w, C25.p) /\ Enc[32] < 128 /\ (IF IsZeroSeq(Fz, 1) THEN IsZeroSeq(w, 1) ELSE FM(w, Fz) = Fx)
            IN res' = ("enc_ok" :> good) @@ res
         /\ pc' = pc + 1 /\ tt' = -2 /\ UNCHANGED <<HKeep, x1, x2, z2, x3, z3, swap, acc>>
\* dh: needed as bytes, so z^(p-2)
PM2 == Sub(C25.p, <<2>>)
InvStart == /\ Cur = "MUL_DH" /\ tt = -1 /\ acc = <<>>
            /\ acc' = One25 /\ tt' = 254 /\ x2' = Fx /\ z2' = Fz /\ swap' = 0 /\ UNCHANGED <<pc, res, HKeep, x1, x3, z3>>
InvStep == /\ Cur = "MUL_DH" /\ tt >= 0 /\ acc # <<>>
           /\ LET sq == FM(acc, acc) IN acc' = IF BitOfNat(PM2, tt) = 1 THEN FM(sq, z2) ELSE sq
           /\ tt' = tt - 1 /\ UNCHANGED <<pc, res, HKeep, x1, x2, z2, x3, z3, swap>>
InvEnd == /\ Cur = "MUL_DH" /\ tt = -1 /\ acc # <<>>
          /\ res' = ("dh" :> ToBytes(FM(x2, acc), 32)) @@ res
          /\ acc' = <<>> /\ pc' = pc + 1 /\ tt' = -2 /\ UNCHANGED <<HKeep, x1, x2, z2, x3, z3, swap>>
Init == /\ pc = 1 /\ res = <<>> /\ hs = H256 /\ st = H256 /\ ws = <<>> /\ t = -1 /\ blk = 0 /\ phase = 1 /\ inner = <<>>
        /\ x1 = <<>> /\ x2 = <<>> /\ z2 = <<>> /\ x3 = <<>> /\ z3 = <<>> /\ tt = -2 /\ swap = 0 /\ acc = <<>>
Next == StartBlock \/ ShaStep \/ EndBlock \/ LStart \/ LStep \/ LEndE \/ InvStart \/ InvStep \/ InvEnd
Spec == Init /\ [][Next]_vars
ASSUME TLCSet(1, [done |-> FALSE, enc |-> FALSE, key |-> FALSE, base_nonce |-> FALSE, exp |-> FALSE])
Check == (Cur = "DONE") => TLCSet(1, [done |-> TRUE, enc |-> R("enc_ok"), key |-> R("key") = JobIn.key, base_nonce |-> R("base_nonce") = JobIn.base_nonce, exp |-> R("exp") = JobIn.exp])
Verdict == JsonSerialize("verdict.json", TLCGet(1))
====
