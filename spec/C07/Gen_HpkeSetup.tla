---- MODULE Gen_HpkeSetup ----
EXTENDS HpkeSetup, Json, SequencesExt
ASSUME JsonSerialize("suites.json", SetToSeq(AllSuites))
====
