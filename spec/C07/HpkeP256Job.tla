---- MODULE HpkeP256Job ----
(* C07, anchor.  RFC 9180 sender setup in all four modes (base, PSK, auth, auth-PSK) for DHKEM(P-256, HKDF-SHA256) with HKDF-SHA256 as an executable
   behaviour: DeriveKeyPair(ikmE) for a NIST curve (LabeledExtract "dkp_prk", LabeledExpand "candidate" with counter 0, bitmask 0xff, the
   candidate must lie in [1, n-1] - a candidate outside, probability 2^-32, is reported as unsupported rather than retried), pkE = skE * G
   and dh = x(skE * pkR) [ || x(skS * pkR) in the auth modes] by double-and-add in projective coordinates, one action per bit, with the conversion
   to affine by z^(p-2), SerializePublicKey as 0x04 || x || y, kem_context = enc || pkRm [ || pkSm ], ExtractAndExpand and the key schedule.
   HMAC-SHA-256 is Sha256Ops.tla, one action per round.  job.json: [mode, aead, nk, ikmE, pkR (65 bytes), skS (32 bytes or empty),
   pkS (65 bytes or empty), info, psk, psk_id, enc, key, base_nonce, exp]. *)
EXTENDS Integers, Sequences, TLC, Json, Sha256Ops
JobIn == JsonDeserialize("job.json")
B == 4096
Max(a, b) == IF a > b THEN a ELSE b
Min(a, b) == IF a < b THEN a ELSE b
Limb(x, i) == IF i <= Len(x) THEN x[i] ELSE 0
RECURSIVE SumR(_, _, _, _, _), MulC(_, _, _, _, _), AddC(_, _, _, _, _), SubC(_, _, _, _, _)
SumR(x, y, k, i, hi) == IF i > hi THEN 0 ELSE x[i] * y[k - i + 1] + SumR(x, y, k, i + 1, hi)
Col(x, y, k) == SumR(x, y, k, Max(1, k - Len(y) + 1), Min(k, Len(x)))
MulC(x, y, k, c, acc) == IF k > Len(x) + Len(y) THEN acc
                         ELSE LET t == (IF k < Len(x) + Len(y) THEN Col(x, y, k) ELSE 0) + c
                              IN MulC(x, y, k + 1, t \div B, Append(acc, t % B))
Mul(x, y) == IF Len(x) = 0 \/ Len(y) = 0 THEN <<>> ELSE MulC(x, y, 1, 0, <<>>)
AddC(x, y, k, c, acc) == IF k > Max(Len(x), Len(y)) THEN (IF c = 0 THEN acc ELSE Append(acc, c))
   ELSE LET t == Limb(x, k) + Limb(y, k) + c IN AddC(x, y, k + 1, t \div B, Append(acc, t % B))
Add(x, y) == AddC(x, y, 1, 0, <<>>)
SubC(x, y, k, b, acc) == IF k > Max(Len(x), Len(y)) THEN <<acc, b>>
   ELSE LET t == Limb(x, k) - Limb(y, k) - b
        IN IF t < 0 THEN SubC(x, y, k + 1, 1, Append(acc, t + B)) ELSE SubC(x, y, k + 1, 0, Append(acc, t))
Sub(x, y) == SubC(x, y, 1, 0, <<>>)[1]
GE(x, y) == SubC(x, y, 1, 0, <<>>)[2] = 0
RECURSIVE IsZeroSeq(_, _), FixR(_, _, _, _)
IsZeroSeq(x, i) == IF i > Len(x) THEN TRUE ELSE x[i] = 0 /\ IsZeroSeq(x, i + 1)
FixR(x, k, n, acc) == IF k > n THEN acc ELSE FixR(x, k + 1, n, Append(acc, Limb(x, k)))
Fix(x, n) == FixR(x, 1, n, <<>>)
SameNat(x, y) == LET n == Max(Len(x), Len(y)) IN Fix(x, n) = Fix(y, n)
Drop(x, n) == IF n >= Len(x) THEN <<>> ELSE SubSeq(x, n + 1, Len(x))
BitOfNat(x, i) == LET dgt == (i \div 12) + 1 IN IF dgt > Len(x) THEN 0 ELSE (x[dgt] \div (2^(i % 12))) % 2

C == [k |-> 22, n |-> 32,
      p |-> <<4095, 4095, 4095, 4095, 4095, 4095, 4095, 4095, 0, 0, 0, 0, 0, 0, 0, 0, 1, 0, 3840, 4095, 4095, 15>>,
      mu |-> <<0, 48, 0, 0, 0, 0, 3840, 4095, 4095, 4079, 4095, 4095, 4094, 4095, 3839, 4095, 4095, 4095, 4095, 4095, 0, 0, 256>>,
      a |-> <<4092, 4095, 4095, 4095, 4095, 4095, 4095, 4095, 0, 0, 0, 0, 0, 0, 0, 0, 1, 0, 3840, 4095, 4095, 15>>,
      b |-> <<75, 3366, 3623, 963, 3022, 3939, 944, 3269, 1712, 464, 3173, 2155, 1688, 1367, 3005, 2878, 999, 937, 2218, 861, 2758, 5>>,
      pm2 |-> <<4093, 4095, 4095, 4095, 4095, 4095, 4095, 4095, 0, 0, 0, 0, 0, 0, 0, 0, 1, 0, 3840, 4095, 4095, 15>>,
      ord |-> <<1361, 1586, 764, 3244, 953, 2127, 1950, 2673, 2733, 3695, 4028, 4095, 4095, 4095, 4095, 4095, 0, 0, 3840, 4095, 4095, 15>>,
      gx |-> <<662, 2444, 1496, 916, 1185, 2575, 2867, 734, 3457, 55, 631, 1039, 932, 3670, 3302, 3979, 583, 708, 737, 3359, 2839, 6>>,
      gy |-> <<501, 3061, 2103, 1030, 2998, 3308, 350, 1715, 855, 3299, 1579, 2529, 3087, 1191, 2027, 2286, 3995, 423, 766, 1070, 4067, 4>>]
RECURSIVE CondSub(_)
CondSub(r) == IF GE(r, C.p) THEN CondSub(Sub(r, C.p)) ELSE r
Red(x) == LET q3 == Drop(Mul(Drop(x, C.k - 1), C.mu), C.k + 1) IN Fix(CondSub(Sub(x, Mul(q3, C.p))), C.k)
FM(a, b) == Red(Mul(a, b))
FA(a, b) == LET s == Add(a, b) IN Fix(IF GE(s, C.p) THEN Sub(s, C.p) ELSE s, C.k)          \* operands below p
FS(a, b) == Fix(IF GE(a, b) THEN Sub(a, b) ELSE Sub(Add(a, C.p), b), C.k)
Zero == Fix(<<0>>, C.k)
One == Fix(<<1>>, C.k)
Small(m) == Fix(<<m>>, C.k)
ASSUME /\ GE(Fix(<<>>, 2 * C.k) \o <<1>>, Mul(C.mu, C.p)) /\ ~GE(Fix(<<>>, 2 * C.k) \o <<1>>, Mul(Add(C.mu, <<1>>), C.p))
       /\ SameNat(Add(C.pm2, <<2>>), C.p) /\ SameNat(Add(C.a, <<3>>), C.p)
\* ---- bytes
ByteBit(bs, n) == IF (n \div 8) + 1 > Len(bs) THEN 0 ELSE (bs[(n \div 8) + 1] \div (2^(n % 8))) % 2
RECURSIVE LimbFromBits(_, _, _), B2L(_, _, _, _), RevR(_, _, _), ToBytesAcc(_, _, _, _)
LimbFromBits(bs, k, b) == IF b = 12 THEN 0 ELSE ByteBit(bs, 12 * (k - 1) + b) * (2^b) + LimbFromBits(bs, k, b + 1)
B2L(bs, k, n, acc) == IF k > n THEN acc ELSE B2L(bs, k + 1, n, Append(acc, LimbFromBits(bs, k, 0)))
RevR(s, i, acc) == IF i = 0 THEN acc ELSE RevR(s, i - 1, Append(acc, s[i]))
Rev(s) == RevR(s, Len(s), <<>>)
OS2IP(bs) == B2L(Rev(bs), 1, ((8 * Len(bs)) + 11) \div 12, <<>>)
ToBytesAcc(x, j, n, acc) == IF j > n THEN acc
                            ELSE LET b0 == 8 * (j - 1)
                                 IN ToBytesAcc(x, j + 1, n, Append(acc, BitOfNat(x,b0) + 2*BitOfNat(x,b0+1) + 4*BitOfNat(x,b0+2) + 8*BitOfNat(x,b0+3)
                                                                + 16*BitOfNat(x,b0+4) + 32*BitOfNat(x,b0+5) + 64*BitOfNat(x,b0+6) + 128*BitOfNat(x,b0+7)))
I2OSP(x, n) == Rev(ToBytesAcc(x, 1, n, <<>>))

\* ---- the curve y^2 = x^3 - 3x + b in projective coordinates (X : Y : Z), identity (0 : 1 : 0)
Inf == <<Zero, One, Zero>>
OnCurve(x, y) == FM(y, y) = FA(FA(FM(FM(x, x), x), FM(C.a, x)), C.b)
PDbl(P) == IF P[3] = Zero \/ P[2] = Zero THEN Inf
           ELSE LET w == FA(FM(C.a, FM(P[3], P[3])), FM(Small(3), FM(P[1], P[1])))   s == FM(P[2], P[3])   Bq == FM(FM(P[1], P[2]), s)   h == FS(FM(w, w), FM(Small(8), Bq))
                IN <<FM(FA(h, h), s), FS(FM(w, FS(FM(Small(4), Bq), h)), FM(Small(8), FM(FM(P[2], P[2]), FM(s, s)))), FM(Small(8), FM(FM(s, s), s))>>
PAdd(P, Q) == IF P[3] = Zero THEN Q ELSE IF Q[3] = Zero THEN P
              ELSE LET u == FS(FM(Q[2], P[3]), FM(P[2], Q[3]))   v == FS(FM(Q[1], P[3]), FM(P[1], Q[3]))
                   IN IF v = Zero THEN (IF u = Zero THEN PDbl(P) ELSE Inf)
                      ELSE LET zz == FM(P[3], Q[3])   vv == FM(v, v)   vvv == FM(vv, v)   r == FM(FM(vv, P[1]), Q[3])
                               w == FS(FS(FM(FM(u, u), zz), vvv), FA(r, r))
                           IN <<FM(v, w), FS(FM(u, FS(r, w)), FM(FM(vvv, P[2]), Q[3])), FM(vvv, zz)>>
ASSUME OnCurve(C.gx, C.gy)
\* ---- RFC 9180 labels
I2(m) == <<m \div 256, m % 256>>
Version == <<72, 80, 75, 69, 45, 118, 49>>
KemSuite == <<75, 69, 77>> \o I2(16)                                                  \* "KEM" || I2OSP(0x0010, 2)
HpkeSuite == <<72, 80, 75, 69>> \o I2(16) \o I2(1) \o I2(JobIn.aead)                      \* "HPKE" || kem_id || kdf_id || aead_id
LIkm(suite, label, ikm) == Version \o suite \o label \o ikm
LInfo(suite, L, label, info) == I2(L) \o Version \o suite \o label \o info
Nk == JobIn.nk
Nn == 12
Nh == 32
Auth == JobIn.mode \in {2, 3}
Prog == <<"dkp_prk", "cand", "MUL_E", "MUL_DH">> \o (IF Auth THEN <<"MUL_DH2">> ELSE <<>>) \o
        <<"eae_prk", "ss", "psk_id_hash", "info_hash", "secret", "key", "base_nonce", "exp", "DONE">>
VARIABLES pc, res, hs, st, ws, t, blk, phase, inner, pt, tt, acc, sub
vars == <<pc, res, hs, st, ws, t, blk, phase, inner, pt, tt, acc, sub>>
Cur == Prog[pc]
R(m) == res[m]
Enc == JobIn.enc
KsCtx == <<JobIn.mode>> \o R("psk_id_hash") \o R("info_hash")
Dh == IF Auth THEN R("dh") \o R("dh2") ELSE R("dh")
KemCtx == IF Auth THEN Enc \o JobIn.pkR \o JobIn.pkS ELSE Enc \o JobIn.pkR
HKey == CASE Cur = "dkp_prk" -> <<>> [] Cur = "cand" -> R("dkp_prk") [] Cur = "eae_prk" -> <<>> [] Cur = "ss" -> R("eae_prk")
          [] Cur = "psk_id_hash" -> <<>> [] Cur = "info_hash" -> <<>> [] Cur = "secret" -> R("ss")
          [] Cur \in {"key", "base_nonce", "exp"} -> R("secret")
HMsg == CASE Cur = "dkp_prk" -> LIkm(KemSuite, <<100, 107, 112, 95, 112, 114, 107>>, JobIn.ikmE)
          [] Cur = "cand" -> LInfo(KemSuite, 32, <<99, 97, 110, 100, 105, 100, 97, 116, 101>>, <<0>>) \o <<1>>
          [] Cur = "eae_prk" -> LIkm(KemSuite, <<101, 97, 101, 95, 112, 114, 107>>, Dh)
          [] Cur = "ss" -> LInfo(KemSuite, 32, <<115, 104, 97, 114, 101, 100, 95, 115, 101, 99, 114, 101, 116>>, KemCtx) \o <<1>>
          [] Cur = "psk_id_hash" -> LIkm(HpkeSuite, <<112, 115, 107, 95, 105, 100, 95, 104, 97, 115, 104>>, JobIn.psk_id)
          [] Cur = "info_hash" -> LIkm(HpkeSuite, <<105, 110, 102, 111, 95, 104, 97, 115, 104>>, JobIn.info)
          [] Cur = "secret" -> LIkm(HpkeSuite, <<115, 101, 99, 114, 101, 116>>, JobIn.psk)
          [] Cur = "key" -> LInfo(HpkeSuite, Nk, <<107, 101, 121>>, KsCtx) \o <<1>>
          [] Cur = "base_nonce" -> LInfo(HpkeSuite, Nn, <<98, 97, 115, 101, 95, 110, 111, 110, 99, 101>>, KsCtx) \o <<1>>
          [] Cur = "exp" -> LInfo(HpkeSuite, Nh, <<101, 120, 112>>, KsCtx) \o <<1>>
OutLen == CASE Cur = "key" -> Nk [] Cur = "base_nonce" -> Nn [] OTHER -> 32
IsMul == Cur \in {"MUL_E", "MUL_DH", "MUL_DH2"}
IsHmac == ~IsMul /\ Cur # "DONE"
In == IF phase = 1 THEN HmacInner(HKey, HMsg) ELSE HmacOuter(HKey, inner)
NBlocks == Sha256PadLen(Len(In)) \div 64
LKeep == <<pt, tt, acc, sub>>
StartBlock == /\ IsHmac /\ t = -1
              /\ ws' = [i \in 1..16 |-> Block256Word(In, blk, i - 1)] /\ st' = hs /\ t' = 0 /\ UNCHANGED <<pc, res, hs, blk, phase, inner, LKeep>>
ShaStep == /\ IsHmac /\ t \in 0..63
           /\ LET w == IF t < 16 THEN ws[t + 1] ELSE NextW256(ws)
              IN /\ st' = Round256(st, w, t)
                 /\ ws' = IF t < 16 THEN ws ELSE [i \in 1..16 |-> IF i < 16 THEN ws[i + 1] ELSE w]
           /\ t' = t + 1 /\ UNCHANGED <<pc, res, hs, blk, phase, inner, LKeep>>
EndBlock == /\ IsHmac /\ t = 64
            /\ LET h2 == [i \in 1..8 |-> Add32(hs[i], st[i])]
               IN IF blk + 1 < NBlocks THEN hs' = h2 /\ blk' = blk + 1 /\ UNCHANGED <<pc, res, phase, inner>>
                  ELSE IF phase = 1 THEN inner' = Digest256(h2) /\ phase' = 2 /\ hs' = H256 /\ blk' = 0 /\ UNCHANGED <<pc, res>>
                  ELSE /\ res' = (Cur :> SubSeq(Digest256(h2), 1, OutLen)) @@ res
                       /\ pc' = pc + 1 /\ hs' = H256 /\ blk' = 0 /\ phase' = 1 /\ inner' = <<>>
            /\ t' = -1 /\ UNCHANGED <<st, ws, LKeep>>
\* ---- scalar multiplications
HKeep == <<hs, st, ws, t, blk, phase, inner>>
Scalar == IF Cur = "MUL_DH2" THEN OS2IP(JobIn.skS) ELSE OS2IP(R("cand"))
SkOk == LET s == Fix(OS2IP(R("cand")), C.k) IN s # Zero /\ ~GE(s, C.ord)
PtOf(bs) == <<Fix(OS2IP(SubSeq(bs, 2, 33)), C.k), Fix(OS2IP(SubSeq(bs, 34, 65)), C.k), One>>
BasePt == IF Cur = "MUL_E" THEN <<C.gx, C.gy, One>> ELSE PtOf(JobIn.pkR)
MStart == /\ IsMul /\ sub = "idle" /\ pt' = Inf /\ tt' = 255 /\ sub' = "mul" /\ UNCHANGED <<pc, res, HKeep, acc>>
MStep == /\ IsMul /\ sub = "mul" /\ tt >= 0
         /\ LET dbl == PDbl(pt) IN pt' = IF BitOfNat(Scalar, tt) = 1 THEN PAdd(dbl, BasePt) ELSE dbl
         /\ tt' = tt - 1 /\ UNCHANGED <<pc, res, HKeep, acc, sub>>
IStart == /\ IsMul /\ sub = "mul" /\ tt < 0 /\ acc' = One /\ tt' = 12 * C.k - 1 /\ sub' = "inv" /\ UNCHANGED <<pc, res, HKeep, pt>>
IStep == /\ IsMul /\ sub = "inv" /\ tt >= 0
         /\ LET sq == FM(acc, acc) IN acc' = IF BitOfNat(C.pm2, tt) = 1 THEN FM(sq, pt[3]) ELSE sq
         /\ tt' = tt - 1 /\ UNCHANGED <<pc, res, HKeep, pt, sub>>
MEnd == /\ IsMul /\ sub = "inv" /\ tt < 0
        /\ LET x == FM(pt[1], acc)   y == FM(pt[2], acc)
               sane == pt[3] # Zero /\ FM(pt[3], acc) = One /\ OnCurve(x, y) /\ LET Q == BasePt IN OnCurve(Q[1], Q[2])
           IN res' = (CASE Cur = "MUL_E" -> ("enc_ok" :> (Enc = <<4>> \o I2OSP(x, 32) \o I2OSP(y, 32))) @@ ("sane_e" :> (sane /\ SkOk))
                        [] Cur = "MUL_DH" -> ("dh" :> I2OSP(x, 32)) @@ ("sane_dh" :> (sane /\ Len(JobIn.pkR) = 65 /\ JobIn.pkR[1] = 4))
                        [] Cur = "MUL_DH2" -> ("dh2" :> I2OSP(x, 32)) @@ ("sane_dh2" :> sane)) @@ res
        /\ sub' = "idle" /\ acc' = <<>> /\ pc' = pc + 1 /\ UNCHANGED <<HKeep, pt, tt>>
Init == /\ pc = 1 /\ res = <<>> /\ hs = H256 /\ st = H256 /\ ws = <<>> /\ t = -1 /\ blk = 0 /\ phase = 1 /\ inner = <<>>
        /\ pt = Inf /\ tt = -1 /\ acc = <<>> /\ sub = "idle"
Next == StartBlock \/ ShaStep \/ EndBlock \/ MStart \/ MStep \/ IStart \/ IStep \/ MEnd
Spec == Init /\ [][Next]_vars
ASSUME TLCSet(1, [done |-> FALSE, sane |-> FALSE, enc |-> FALSE, key |-> FALSE, base_nonce |-> FALSE, exp |-> FALSE])
Check == (Cur = "DONE") => TLCSet(1, [done |-> TRUE, sane |-> R("sane_e") /\ R("sane_dh") /\ (Auth => R("sane_dh2")), enc |-> R("enc_ok"), key |-> R("key") = JobIn.key,
                                    base_nonce |-> R("base_nonce") = JobIn.base_nonce, exp |-> R("exp") = JobIn.exp])
Verdict == JsonSerialize("verdict.json", TLCGet(1))
====
