SPECIFICATION Spec
INVARIANT Check
POSTCONDITION Verdict
CHECK_DEADLOCK FALSE
