SPECIFICATION Spec
INVARIANTS ReceiverAgreesIffHonest PskRule
CHECK_DEADLOCK FALSE
