---- MODULE BlindRsa ----
(* C18.  RSA blind signatures (RFC 9474): z = m * r^e, blind signature z^d, s = z^d * r^-1 = m^d, finalisation checks s^e = m.
   Toy modulus N = 7 * 11, checked for ALL messages and blinding factors: the finalised signature is m^d whatever the blind
   is, every altered blind signature is refused by Finalize, and the signer's range rule.  The protocol as a state machine:
   Prepare -> Blind -> BlindSign -> (Alter) -> Finalize -> Verify.                                                *)
EXTENDS Integers, Sequences, FiniteSets, TLC
N == 77
E == 7
D == 43                                   \* 7 * 43 = 301 = 1 mod 60 = (p-1)(q-1)
Units == {x \in 1..(N-1) : (x % 7) # 0 /\ (x % 11) # 0}
RECURSIVE Pow(_,_)
Pow(b, e) == IF e = 0 THEN 1 ELSE (b * Pow(b, e - 1)) % N
InvN(a) == CHOOSE i \in Units : ((a*i) % N) = 1
VARIABLES m, r, z, bs, altered, sig, outcome
vars == <<m, r, z, bs, altered, sig, outcome>>
Init == m \in Units /\ r \in Units /\ z = -1 /\ bs = -1 /\ altered = FALSE /\ sig = -1 /\ outcome = "none"
Blind == z = -1 /\ z' = (m * Pow(r, E)) % N /\ UNCHANGED <<m, r, bs, altered, sig, outcome>>
BlindSign == z # -1 /\ bs = -1 /\ bs' = Pow(z, D) /\ UNCHANGED <<m, r, z, altered, sig, outcome>>
Alter == bs # -1 /\ ~altered /\ outcome = "none" /\ \E v \in 0..(N-1) : v # bs /\ bs' = v /\ altered' = TRUE /\ UNCHANGED <<m, r, z, sig, outcome>>
Finalize == /\ bs # -1 /\ outcome = "none"
            /\ LET s == (bs * InvN(r)) % N IN
               IF Pow(s, E) = m THEN sig' = s /\ outcome' = "ok" ELSE sig' = -1 /\ outcome' = "error"
            /\ UNCHANGED <<m, r, z, bs, altered>>
Next == Blind \/ BlindSign \/ Alter \/ Finalize
Spec == Init /\ [][Next]_vars
SignatureIsMd == outcome = "ok" => sig = Pow(m, D)                          \* independent of the blinding factor r
AlteredNeverFinalises == (outcome # "none" /\ altered) => outcome = "error"
HonestFinalises == (outcome # "none" /\ ~altered) => outcome = "ok"
\* signer-side rule: refuse inputs not below the modulus or of the wrong length
SignerAccepts(v, len, klen) == len = klen /\ v < N
====
