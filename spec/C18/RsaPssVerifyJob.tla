---- MODULE RsaPssVerifyJob ----
(* C18, anchor.  RFC 8017 RSASSA-PSS-VERIFY with SHA-384 and MGF1-SHA-384 as an executable behaviour:
     RSAVP1    m = s^65537 mod n as 16 squarings and one multiplication; each product is reduced with an untrusted quotient the job supplies
               (hs[i], qs[i]): TLC checks  x * y = q * n + next  and  next < n  with multi-precision arithmetic (BigNat), so the chain is TLC's
     I2OSP     EM, emLen = ceil((modBits - 1) / 8)
     EMSA-PSS-VERIFY  mHash = SHA-384(M), dbMask = MGF1(H, emLen - hLen - 1) (one SHA-384 per 48 bytes), DB, the salt (fixed length, or - for
               Go's PSSSaltLengthAuto that the zero-salt variants pass - whatever follows the first non-zero octet), H' = SHA-384(0^8 || mHash || salt);
               the structural decision is EmsaPss!Consistent on the values computed HERE.
   SHA-384 is Sha512Ops.tla with the SHA-384 initial value, one action per round.  job.json: [n, sig, msg, modbits, slen, auto, hs, qs, accepted]. *)
EXTENDS BigNat, Sha512Ops, Json, TLC
JobIn == JsonDeserialize("job.json")
PS == INSTANCE EmsaPss
N == JobIn.n
EmBits == JobIn.modbits - 1
EmLen == (EmBits + 7) \div 8
HLen == 48
DbLen == EmLen - HLen - 1
NMgf == (DbLen + HLen - 1) \div HLen
\* bytes (big-endian) <-> digits
RECURSIVE Os2ipR(_, _, _)
Os2ipR(bs, i, acc) == IF i > Len(bs) THEN acc ELSE Os2ipR(bs, i + 1, Add(Mul(acc, <<256>>), <<bs[i]>>))
Os2ip(bs) == Norm(Os2ipR(bs, 1, <<>>))
BitOfNat(x, i) == LET dgt == (i \div 12) + 1 IN IF dgt > Len(x) THEN 0 ELSE (x[dgt] \div (2^(i % 12))) % 2
ByteOfNat(x, k) == LET b0 == 8 * k IN BitOfNat(x,b0) + 2*BitOfNat(x,b0+1) + 4*BitOfNat(x,b0+2) + 8*BitOfNat(x,b0+3) + 16*BitOfNat(x,b0+4) + 32*BitOfNat(x,b0+5) + 64*BitOfNat(x,b0+6) + 128*BitOfNat(x,b0+7)
RECURSIVE I2ospR(_, _, _)
I2ospR(x, k, acc) == IF k < 0 THEN acc ELSE I2ospR(x, k - 1, Append(acc, ByteOfNat(x, k)))
I2osp(x, n) == I2ospR(x, n - 1, <<>>)
VARIABLES pc, step, x, chainok, res, hs, st, ws, t, blk
vars == <<pc, step, x, chainok, res, hs, st, ws, t, blk>>
\* program: "EXP" (17 steps), "MH", "MGF" x NMgf, "HP", "DONE"
RECURSIVE MgfNames(_)
MgfNames(c) == IF c >= NMgf THEN <<>> ELSE <<<<"MGF", c>>>> \o MgfNames(c + 1)
Prog == <<<<"EXP", 0>>, <<"MH", 0>>>> \o MgfNames(0) \o <<<<"HP", 0>>, <<"DONE", 0>>>>
Cur == Prog[pc]
R(n) == res[n]
S0 == Os2ip(JobIn.sig)
SigOk == Len(JobIn.sig) = (JobIn.modbits + 7) \div 8 /\ Less(S0, N)
\* ---- RSAVP1 with e = 2^16 + 1
ExpStep == /\ Cur[1] = "EXP" /\ step <= 17
           /\ LET y == IF step <= 16 THEN x ELSE S0                        \* 16 squarings, then times s
                  nxt == JobIn.hs[step]
              IN /\ chainok' = (chainok /\ IsMod(Mul(x, y), N, JobIn.qs[step], nxt))
                 /\ x' = Norm(nxt)
           /\ step' = step + 1 /\ UNCHANGED <<pc, res, hs, st, ws, t, blk>>
ExpEnd == /\ Cur[1] = "EXP" /\ step = 18
          /\ res' = (<<"EM", 0>> :> I2osp(x, EmLen)) @@ (<<"emfits", 0>> :> Less(x, Pow2(8 * EmLen))) @@ res
          /\ pc' = pc + 1 /\ UNCHANGED <<step, x, chainok, hs, st, ws, t, blk>>
\* ---- SHA-384 jobs
EM == R(<<"EM", 0>>)
Hfield == SubSeq(EM, DbLen + 1, DbLen + HLen)
RECURSIVE MaskCat(_)
MaskCat(c) == IF c >= NMgf THEN <<>> ELSE R(<<"MGF", c>>) \o MaskCat(c + 1)
DbMask == SubSeq(MaskCat(0), 1, DbLen)
TopBits == 8 * EmLen - EmBits
Db == LET raw == [j \in 1..DbLen |-> EM[j] ^^ DbMask[j]] IN [j \in 1..DbLen |-> IF j = 1 THEN raw[1] % (2^(8 - TopBits)) ELSE raw[j]]
RECURSIVE FirstNZ(_, _)
FirstNZ(s, j) == IF j > Len(s) THEN 0 ELSE IF s[j] # 0 THEN j ELSE FirstNZ(s, j + 1)
SaltLen == IF JobIn.auto THEN (IF FirstNZ(Db, 1) = 0 THEN 0 ELSE DbLen - FirstNZ(Db, 1)) ELSE JobIn.slen
Salt == IF SaltLen > DbLen THEN <<>> ELSE SubSeq(Db, DbLen - SaltLen + 1, DbLen)
ShaIn == CASE Cur[1] = "MH" -> JobIn.msg
           [] Cur[1] = "MGF" -> Hfield \o <<0, 0, 0, Cur[2]>>
           [] Cur[1] = "HP" -> <<0, 0, 0, 0, 0, 0, 0, 0>> \o R(<<"MH", 0>>) \o Salt
IsHash == Cur[1] \in {"MH", "MGF", "HP"}
NBlocks == ShaPadLen(Len(ShaIn)) \div 128
StartBlock == /\ IsHash /\ t = -1
              /\ ws' = [j \in 1..16 |-> BlockWord(ShaIn, blk, j - 1)] /\ st' = hs /\ t' = 0 /\ UNCHANGED <<pc, step, x, chainok, res, hs, blk>>
ShaStep == /\ IsHash /\ t \in 0..79
           /\ LET w == IF t < 16 THEN ws[t + 1] ELSE NextW(ws)
              IN /\ st' = Round(st, w, t)
                 /\ ws' = IF t < 16 THEN ws ELSE [j \in 1..16 |-> IF j < 16 THEN ws[j + 1] ELSE w]
           /\ t' = t + 1 /\ UNCHANGED <<pc, step, x, chainok, res, hs, blk>>
EndBlock == /\ IsHash /\ t = 80
            /\ LET h2 == [j \in 1..8 |-> Add64(hs[j], st[j])]
               IN IF blk + 1 < NBlocks THEN hs' = h2 /\ blk' = blk + 1 /\ UNCHANGED <<pc, res>>
                  ELSE res' = (Cur :> SubSeq(Digest(h2), 1, 48)) @@ res /\ pc' = pc + 1 /\ hs' = H384 /\ blk' = 0
            /\ t' = -1 /\ UNCHANGED <<st, ws, step, x, chainok>>
Init == pc = 1 /\ step = 1 /\ x = S0 /\ chainok = TRUE /\ res = <<>> /\ hs = H384 /\ st = H384 /\ ws = <<>> /\ t = -1 /\ blk = 0
Next == ExpStep \/ ExpEnd \/ StartBlock \/ ShaStep \/ EndBlock
Spec == Init /\ [][Next]_vars
Structure == PS!Consistent([em |-> EM, embits |-> EmBits, hlen |-> HLen, slen |-> JobIn.slen, auto |-> JobIn.auto, mhash |-> R(<<"MH", 0>>),
                            dbmask |-> DbMask, salt |-> Salt, hprime |-> R(<<"HP", 0>>)])
ASSUME TLCSet(1, [done |-> FALSE, agrees |-> FALSE, chain_ok |-> FALSE, verdict |-> FALSE])
Check == (Cur[1] = "DONE") => LET v == SigOk /\ R(<<"emfits", 0>>) /\ Structure
                              IN TLCSet(1, [done |-> TRUE, agrees |-> (v = JobIn.accepted), chain_ok |-> chainok, verdict |-> v])
Verdict == JsonSerialize("verdict.json", TLCGet(1))
====
