---- MODULE EmsaPss ----
(* RFC 8017 section 9.1.2 EMSA-PSS-VERIFY as an executable decision procedure over the bytes of EM.  Hash values are
   hints computed by the harness with the Go standard library (mHash = Hash(M), dbMask = MGF1(H, emLen - hLen - 1),
   hprime = Hash(0^8 || mHash || salt) for the salt the harness read from DB); everything structural is decided here. *)
EXTENDS Integers, Sequences, Bitwise, TLC
(* r.auto: the verifier was given Go's rsa.PSSSaltLengthAuto (= 0, which is what the zero-salt variants pass both to the
   package's verifier and to crypto/rsa): the salt length is then whatever follows the first non-zero octet of DB. *)
RECURSIVE XorAcc(_,_,_,_), FirstNZ(_,_)
FirstNZ(s, i) == IF i > Len(s) THEN 0 ELSE IF s[i] # 0 THEN i ELSE FirstNZ(s, i + 1)
XorAcc(a, b, i, acc) == IF i > Len(a) THEN acc ELSE XorAcc(a, b, i + 1, Append(acc, a[i] ^^ b[i]))
Consistent(r) ==
  LET em == r.em   emLen == Len(em)   hLen == r.hlen   sLen == IF r.auto THEN 0 ELSE r.slen   emBits == r.embits
      topBits == 8 * emLen - emBits
      topMask == 255 - ((2^(8 - topBits)) - 1)                        \* the bits that must be zero in the first octet
  IN /\ emLen = (emBits + 7) \div 8
     /\ Len(r.mhash) = hLen
     /\ emLen >= hLen + sLen + 2                                        \* step 3
     /\ em[emLen] = 188                                                 \* step 4: trailer 0xbc
     /\ (em[1] & topMask) = 0                                           \* step 6
     /\ LET dbLen == emLen - hLen - 1
            maskedDB == SubSeq(em, 1, dbLen)
            H == SubSeq(em, dbLen + 1, emLen - 1)
            db0 == XorAcc(maskedDB, r.dbmask, 1, <<>>)                   \* steps 7-8
            DB == [db0 EXCEPT ![1] = db0[1] & (255 - topMask)]           \* step 9
            psLen == IF r.auto THEN FirstNZ(DB, 1) - 1 ELSE dbLen - sLen - 1
        IN /\ Len(r.dbmask) = dbLen
           /\ psLen >= 0
           /\ \A i \in 1..psLen : DB[i] = 0                              \* step 10
           /\ DB[psLen + 1] = 1
           /\ SubSeq(DB, psLen + 2, dbLen) = r.salt                      \* the salt the hint was computed for is the one in DB
           /\ H = r.hprime                                               \* steps 12-14
====
