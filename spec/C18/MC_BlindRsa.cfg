SPECIFICATION Spec
INVARIANTS SignatureIsMd AlteredNeverFinalises HonestFinalises
CHECK_DEADLOCK FALSE
