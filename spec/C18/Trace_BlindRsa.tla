---- MODULE Trace_BlindRsa ----
(* "flow": one blind-signature run (variant, key class, alteration site) with what happened;
   "signer": BlindSign on a boundary input;  "pss": one (message, signature) pair with EM = s^e mod N and both verifiers' verdicts. *)
EXTENDS Integers, Sequences, TLC, Json
VARIABLES l, bad
PS == INSTANCE EmsaPss
OkFlow(r) == /\ r.panics = 0
             /\ IF r.site = "none" THEN r.finalize_ok /\ r.lib_verify /\ r.std_verify /\ r.blind_independent /\ r.sig_len_ok
                ELSE ~r.finalize_ok                                      \* any altered blind signature must be refused by Finalize
OkSigner(r) == r.panics = 0 /\ (r.accepted => (r.below_modulus /\ r.right_length))        \* refuses inputs not below N / wrong length
                            /\ ((r.below_modulus /\ r.right_length /\ r.coprime) => r.accepted)
\* RSASSA-PSS-VERIFY: a signature representative that is not below the modulus is refused before anything else (RFC 8017 5.2.2 step 1)
OkPss(r) == LET want == r.sig_in_range /\ PS!Consistent(r) IN r.panics = 0 /\ r.lib = want /\ r.std = want
OkLine(r) == CASE r.ev = "flow" -> OkFlow(r) [] r.ev = "signer" -> OkSigner(r) [] r.ev = "pss" -> OkPss(r) [] OTHER -> FALSE
INSTANCE LinesTrace WITH Ok <- OkLine
ASSUME TLCSet(1, 0) /\ TLCSet(2, {}) /\ TLCSet(3, ndJsonDeserialize("trace.ndjson"))
====
