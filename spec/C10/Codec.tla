---- MODULE Codec ----
(* C10.  What a decoder of an untrusted byte string may do.  A wire format is a sequence of items: a fixed-size
   field, a length-prefixed opaque field, or a count-prefixed list of items.  The decoder below is the shape
   every circl parser is supposed to have: it checks the remaining length BEFORE every read, so for EVERY input
   (TLC enumerates all byte strings up to a bound, i.e. every truncation, every value of every length and count
   field, every extension) it ends in Accepted or Rejected, never reads outside the input and always terminates.
   Panic and NoReturn are not outcomes of any action: a recorded run that shows them is rejected by TLC.

   MutationClasses names the operators the harness applies to valid encodings of the real formats, where the
   field layout is not known to the harness: every byte offset is treated as a potential length/count/tag field. *)
EXTENDS Integers, Sequences, FiniteSets, TLC
CONSTANTS MaxLen, MaxByte
Fixed(n) == [k |-> "fixed", n |-> n]
LP == [k |-> "lp"]                               \* u8 length, then that many bytes
Count(it) == [k |-> "count", it |-> it]          \* u8 count, then count items
Formats == { <<LP>>, <<Fixed(2), LP>>, <<LP, Fixed(1)>>, <<Count(LP)>>, <<Fixed(1), Count(Fixed(2))>>, <<LP, Count(LP)>> }
Inputs == UNION { [1..n -> 0..MaxByte] : n \in 0..MaxLen }
MinSize(it) == IF it.k = "fixed" THEN it.n ELSE 1
VARIABLES inp, fmt, pos, todo, outcome, steps
vars == <<inp, fmt, pos, todo, outcome, steps>>
Init == inp \in Inputs /\ fmt \in Formats /\ pos = 0 /\ todo = fmt /\ outcome = "none" /\ steps = 0
Remaining == Len(inp) - pos
Reject == outcome' = "Rejected" /\ UNCHANGED <<inp, fmt, pos, todo>>
RECURSIVE Rep(_,_)
Rep(it, c) == IF c = 0 THEN <<>> ELSE <<it>> \o Rep(it, c - 1)
Step ==
  /\ outcome = "none" /\ todo # <<>> /\ steps' = steps + 1
  /\ LET it == Head(todo) IN
     CASE it.k = "fixed" -> IF Remaining < it.n THEN Reject
                            ELSE pos' = pos + it.n /\ todo' = Tail(todo) /\ UNCHANGED <<inp, fmt, outcome>>
       [] it.k = "lp" -> IF Remaining < 1 THEN Reject
                         ELSE LET L == inp[pos + 1] IN                        \* read only after the check
                              IF Remaining - 1 < L THEN Reject
                              ELSE pos' = pos + 1 + L /\ todo' = Tail(todo) /\ UNCHANGED <<inp, fmt, outcome>>
       [] it.k = "count" -> IF Remaining < 1 THEN Reject
                            ELSE LET c == inp[pos + 1] IN
                                 IF c * MinSize(it.it) > Remaining - 1 THEN Reject      \* a huge count cannot force work or allocation
                                 ELSE pos' = pos + 1 /\ todo' = Rep(it.it, c) \o Tail(todo) /\ UNCHANGED <<inp, fmt, outcome>>
Finish == /\ outcome = "none" /\ todo = <<>> /\ steps' = steps
          /\ outcome' = (IF pos = Len(inp) THEN "Accepted" ELSE "Rejected") /\ UNCHANGED <<inp, fmt, pos, todo>>
Done == outcome # "none" /\ UNCHANGED vars
Next == Step \/ Finish \/ Done
Spec == Init /\ [][Next]_vars
InBounds == pos >= 0 /\ pos <= Len(inp)
OutcomeSet == outcome \in {"none", "Accepted", "Rejected"}
Terminates == steps <= 2 * (MaxLen + 2)             \* work is linear in the input, whatever the length / count fields say
MutationClasses == {"valid", "degenerate", "random", "truncate", "append", "prepend", "drop-prefix",
                    "window1", "window2", "window4", "bitflip", "truncate+window", "window+extend", "tail-ramp", "deep-nesting", "reshape-component"}
====
