---- MODULE Trace_Reshape ----
(* C10.  Codec!MutationClasses "reshape-component": the container is re-encoded consistently around ONE component of another, well-formed
   shape (a matrix with other dimensions, a vector of components of another length).  Such a ciphertext is never what Encrypt produces: the
   decryptor answers with an error - it does not panic and does not accept. *)
EXTENDS Integers, Sequences, TLC, Json
VARIABLES l, bad
OkLine(r) == r.ev = "reshape" /\ r.panics = 0 /\ ~r.accepted
INSTANCE LinesTrace WITH Ok <- OkLine
ASSUME TLCSet(1, 0) /\ TLCSet(2, {}) /\ TLCSet(3, ndJsonDeserialize("trace.ndjson"))
====
