SPECIFICATION Spec
CONSTANTS MaxLen = 5
 MaxByte = 3
INVARIANTS InBounds OutcomeSet Terminates
