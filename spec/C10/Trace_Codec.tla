---- MODULE Trace_Codec ----
(* Each line: one decoding entry point of circl (adapter) x one mutation class, with how many inputs were
   accepted / rejected / panicked / did not return.  Only Accepted and Rejected are outcomes of the model.  *)
EXTENDS Integers, Sequences, TLC, Json
VARIABLES l, bad
CD == INSTANCE Codec WITH MaxLen <- 1, MaxByte <- 1, inp <- 0, fmt <- 0, pos <- 0, todo <- 0, outcome <- 0, steps <- 0
OkLine(r) == /\ r.class \in CD!MutationClasses /\ r.total > 0
             /\ r.panics = 0 /\ r.timeouts = 0 /\ r.accepted + r.rejected = r.total
INSTANCE LinesTrace WITH Ok <- OkLine
ASSUME TLCSet(1, 0) /\ TLCSet(2, {}) /\ TLCSet(3, ndJsonDeserialize("trace.ndjson"))
====
