---- MODULE Trace_Ladder ----
(* C06 / C12.  The building blocks of the X25519 / X448 ladders (dh/x25519, dh/x448: mulA24, double, ladderStep, diffAdd - assembly with and
   without BMI2/ADX, and generic Go), recorded by an in-package recorder on structured operands - among them the operands for which
   a24 * x needs its second carry fold - and judged line by line.  Every operand is a raw element (any 256- resp. 448-bit string); TLC reduces
   it modulo p itself (pseudo-Mersenne folding, no hints) and requires every output to be congruent to
     mulA24     : a24 * x                                  a24 = (A + 2) / 4 = 121666 resp. 39082
     double     : X' = (X+Z)^2 (X-Z)^2,  Z' = E (BB + a24 E)  with E = (X+Z)^2 - (X-Z)^2                      (RFC 7748, a24 = (A-2)/4 rewritten)
     ladderStep : (x3', z3') = ((DA+CB)^2, x1 (DA-CB)^2) for the two points (x2:z2), (x3:z3) with difference x1, and (x2', z2') = double of
                  (x3:z3) if the bit is set, of (x2:z2) otherwise; x1 unchanged                                 (RFC 7748 step, conditional move form)
     diffAdd    : with the two points swapped if the bit is set:  x1' = ((X1+Z1) + mu (X1-Z1))^2 Z2,  z1' = ((X1+Z1) - mu (X1-Z1))^2 X2,
                  (x2, z2) the swapped values, mu unchanged                                                     (Oliveira et al., SAC 2017, the
                  right-to-left ladder with precomputed multiples used for key generation)                      *)
EXTENDS Integers, Sequences, TLC, Json
VARIABLES l, bad
B == 4096
Max(a, b) == IF a > b THEN a ELSE b
Min(a, b) == IF a < b THEN a ELSE b
Limb(x, i) == IF i <= Len(x) THEN x[i] ELSE 0
RECURSIVE SumR(_, _, _, _, _), MulC(_, _, _, _, _), AddC(_, _, _, _, _), SubC(_, _, _, _, _)
SumR(x, y, k, i, hi) == IF i > hi THEN 0 ELSE x[i] * y[k - i + 1] + SumR(x, y, k, i + 1, hi)
Col(x, y, k) == SumR(x, y, k, Max(1, k - Len(y) + 1), Min(k, Len(x)))
MulC(x, y, k, c, acc) == IF k > Len(x) + Len(y) THEN acc
                         ELSE LET t == (IF k < Len(x) + Len(y) THEN Col(x, y, k) ELSE 0) + c
                              IN MulC(x, y, k + 1, t \div B, Append(acc, t % B))
Mul(x, y) == IF Len(x) = 0 \/ Len(y) = 0 THEN <<>> ELSE MulC(x, y, 1, 0, <<>>)
AddC(x, y, k, c, acc) == IF k > Max(Len(x), Len(y)) THEN (IF c = 0 THEN acc ELSE Append(acc, c))
   ELSE LET t == Limb(x, k) + Limb(y, k) + c IN AddC(x, y, k + 1, t \div B, Append(acc, t % B))
Add(x, y) == AddC(x, y, 1, 0, <<>>)
SubC(x, y, k, b, acc) == IF k > Max(Len(x), Len(y)) THEN <<acc, b>>
   ELSE LET t == Limb(x, k) - Limb(y, k) - b
        IN IF t < 0 THEN SubC(x, y, k + 1, 1, Append(acc, t + B)) ELSE SubC(x, y, k + 1, 0, Append(acc, t))
Sub(x, y) == SubC(x, y, 1, 0, <<>>)[1]
GE(x, y) == SubC(x, y, 1, 0, <<>>)[2] = 0
RECURSIVE IsZeroSeq(_, _), Rep(_, _, _), FixR(_, _, _, _)
IsZeroSeq(x, i) == IF i > Len(x) THEN TRUE ELSE x[i] = 0 /\ IsZeroSeq(x, i + 1)
Rep(v, n, acc) == IF n = 0 THEN acc ELSE Rep(v, n - 1, Append(acc, v))
FixR(x, k, n, acc) == IF k > n THEN acc ELSE FixR(x, k + 1, n, Append(acc, Limb(x, k)))
\* ---- the two curves.  Bits = D*12 + R;  P as digits;  FoldC = 2^Bits mod p;  A24 = (A - 2) / 4;  N = byte length
Cv(c) == IF c = "x25519"
         THEN [bits |-> 255, d |-> 21, r |-> 3, n |-> 32, nd |-> 22, a24 |-> <<2881, 29>>, foldc |-> <<19>>,
               p |-> Append(<<4077>> \o Rep(4095, 20, <<>>), 7)]                                  \* 2^255 - 19
         ELSE [bits |-> 448, d |-> 37, r |-> 4, n |-> 56, nd |-> 38, a24 |-> <<2217, 9>>,                      \* 39081
               foldc |-> Append(<<1>> \o Rep(0, 17, <<>>), 256),                                   \* 2^224 + 1 : digit 19 = 2^(224-216)
               p |-> Rep(4095, 18, <<>>) \o <<4095 - 256>> \o Rep(4095, 18, <<>>) \o <<15>>]       \* 2^448 - 2^224 - 1
RECURSIVE HiR(_, _, _, _, _)
HiR(x, c, k, n, acc) == IF k > n THEN acc
                        ELSE HiR(x, c, k + 1, n, Append(acc, (Limb(x, c.d + k) \div (2^c.r)) + ((Limb(x, c.d + 1 + k) % (2^c.r)) * (2^(12 - c.r)))))
HiBits(x, c) == HiR(x, c, 1, Max(Len(x) - c.d, 1), <<>>)
RECURSIVE LoR(_, _, _, _)
LoR(x, c, k, acc) == IF k > c.nd THEN acc ELSE LoR(x, c, k + 1, Append(acc, IF k < c.nd THEN Limb(x, k) ELSE Limb(x, c.nd) % (2^c.r)))
LoBits(x, c) == LoR(x, c, 1, <<>>)
RECURSIVE Fold(_, _)
Fold(x, c) == LET hi == HiBits(x, c) IN IF IsZeroSeq(hi, 1) THEN LoBits(x, c) ELSE Fold(Add(LoBits(x, c), Mul(hi, c.foldc)), c)
Red(x, c) == LET y == Fold(x, c) IN FixR(IF GE(y, c.p) THEN Sub(y, c.p) ELSE y, 1, c.nd, <<>>)
FMul(a, b, c) == Red(Mul(a, b), c)
FAdd(a, b, c) == Red(Add(a, b), c)
FSub(a, b, c) == Red(Add(a, Sub(c.p, b)), c)                \* a, b canonical
\* ---- bytes

CvOf(r) == Cv(r.curve)
RECURSIVE MapRed(_, _, _, _)
MapRed(xs, c, i, acc) == IF i > Len(xs) THEN acc ELSE MapRed(xs, c, i + 1, Append(acc, Red(xs[i], c)))
A24P(c) == IF c.n = 32 THEN <<2882, 29>> ELSE <<2218, 9>>                                       \* 121666, 39082
ASSUME A24P(Cv("x25519")) = Add(Cv("x25519").a24, <<1>>) /\ A24P(Cv("x448")) = Add(Cv("x448").a24, <<1>>)
Dbl(X, Z, c) == LET s == FAdd(X, Z, c)   d == FSub(X, Z, c)   AA == FMul(s, s, c)   BB == FMul(d, d, c)   E == FSub(AA, BB, c)
                IN <<FMul(AA, BB, c), FMul(E, FAdd(BB, FMul(A24P(c), E, c), c), c)>>
OkLine(r) ==
  LET c == CvOf(r)
      in == MapRed(r.inp, c, 1, <<>>)
      out == MapRed(r.out, c, 1, <<>>)
  IN r.panics = 0 /\
     CASE r.op = "mulA24" -> Len(out) = 1 /\ out[1] = FMul(A24P(c), in[1], c)
       [] r.op = "double" -> out = Dbl(in[1], in[2], c)
       [] r.op = "ladderStep" ->
            LET x1 == in[1]   x2 == in[2]   z2 == in[3]   x3 == in[4]   z3 == in[5]
                A == FAdd(x2, z2, c)   Bv == FSub(x2, z2, c)   Cc == FAdd(x3, z3, c)   D == FSub(x3, z3, c)
                DA == FMul(D, A, c)   CB == FMul(Cc, Bv, c)
                s == FAdd(DA, CB, c)   d == FSub(DA, CB, c)
                dd == IF r.b = 1 THEN Dbl(x3, z3, c) ELSE Dbl(x2, z2, c)
            IN out = <<x1, dd[1], dd[2], FMul(s, s, c), FMul(x1, FMul(d, d, c), c)>>
       [] r.op = "diffAdd" ->
            LET mu == in[1]
                X1 == IF r.b = 1 THEN in[4] ELSE in[2]   Z1 == IF r.b = 1 THEN in[5] ELSE in[3]
                X2 == IF r.b = 1 THEN in[2] ELSE in[4]   Z2 == IF r.b = 1 THEN in[3] ELSE in[5]
                s == FAdd(X1, Z1, c)   d == FMul(FSub(X1, Z1, c), mu, c)
                p1 == FAdd(s, d, c)   m1 == FSub(s, d, c)
            IN out = <<mu, FMul(FMul(p1, p1, c), Z2, c), FMul(FMul(m1, m1, c), X2, c), X2, Z2>>
       [] OTHER -> FALSE
INSTANCE LinesTrace WITH Ok <- OkLine
ASSUME TLCSet(1, 0) /\ TLCSet(2, {}) /\ TLCSet(3, ndJsonDeserialize("trace.ndjson"))
====
