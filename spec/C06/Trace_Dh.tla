---- MODULE Trace_Dh ----
(* Recorded X25519 / X448 calls judged line by line.
     dh     - the output is the RFC 7748 value (r.ref: the math/big transcription of the RFC, itself anchored to MontJobs.tla on
              the sampled jobs of the same run) and the success flag is FALSE EXACTLY when the output is all zero
     alias  - two encodings of the same field element (TLC checks ua = ub mod p with the recorder's quotient hints; for X25519
              the ignored top bit is already removed) give the same output
     pair   - two parties derive the same secret
     kem    - the hybrid / HPKE KEMs turn a false flag into an error, honest runs succeed; X-Wing is not required to refuse   *)
EXTENDS BigNat, FieldConsts, Integers, TLC, Json
VARIABLES l, bad
N(r) == IF r.curve = "x25519" THEN 32 ELSE 56
AllZero(s) == \A i \in 1..Len(s) : s[i] = 0
P(r) == Modulus(IF r.curve = "x25519" THEN "fp25519" ELSE "fp448")
OkDh(r) == /\ Len(r.out) = N(r) /\ r.out = r.ref
           /\ (r.op = "shared" => (r.ok = ~AllZero(r.out)))
OkAlias(r) == Congr(r.ua, r.ub, P(r), r.qa, r.qb) /\ r.out = r.outb
OkPair(r) == r.out = r.outb /\ (r.ok = ~AllZero(r.out))
OkKem(r) == IF r.site = "honest" THEN ~r.err ELSE (r.xwing \/ r.err)
OkLine(r) == CASE r.ev = "dh" -> OkDh(r) [] r.ev = "alias" -> OkAlias(r) [] r.ev = "pair" -> OkPair(r) [] r.ev = "kem" -> OkKem(r) [] OTHER -> FALSE
INSTANCE LinesTrace WITH Ok <- OkLine
ASSUME TLCSet(1, 0) /\ TLCSet(2, {}) /\ TLCSet(3, ndJsonDeserialize("trace.ndjson"))
====
