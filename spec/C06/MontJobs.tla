---- MODULE MontJobs ----
(* C06.  RFC 7748 section 5 as an executable job machine.  jobs.json is a sequence of records
     [curve: "x25519" | "x448", k: scalar bytes, u: peer bytes, want: bytes the implementation returned]
   For each job TLC decodes the scalar (clamping) and the u-coordinate (X25519: top bit masked; both: reduced mod p), runs the
   Montgomery ladder of the RFC - one action per scalar bit, arithmetic on base-4096 digit sequences with the pseudo-Mersenne
   fold 2^255 = 19 resp. 2^448 = 2^224 + 1 (mod p) - and then decides whether `want` is THE encoding of x_2 / z_2:
        want < p,   want * z_2 = x_2 (mod p),   and want = 0 when z_2 = 0   (x_2 * z_2^(p-2) is 0 then)
   which is the RFC's final step without spending 255/448 more squarings on the inversion.  Jobs whose `want` is not the
   RFC value are collected in `bad`.  No hint is taken from the implementation or the harness.                        *)
EXTENDS Integers, Sequences, TLC, Json
Jobs == JsonDeserialize("jobs.json")
B == 4096
Max(a, b) == IF a > b THEN a ELSE b
Min(a, b) == IF a < b THEN a ELSE b
Limb(x, i) == IF i <= Len(x) THEN x[i] ELSE 0
RECURSIVE SumR(_, _, _, _, _), MulC(_, _, _, _, _), AddC(_, _, _, _, _), SubC(_, _, _, _, _)
SumR(x, y, k, i, hi) == IF i > hi THEN 0 ELSE x[i] * y[k - i + 1] + SumR(x, y, k, i + 1, hi)
Col(x, y, k) == SumR(x, y, k, Max(1, k - Len(y) + 1), Min(k, Len(x)))
MulC(x, y, k, c, acc) == IF k > Len(x) + Len(y) THEN acc
                         ELSE LET t == (IF k < Len(x) + Len(y) THEN Col(x, y, k) ELSE 0) + c
                              IN MulC(x, y, k + 1, t \div B, Append(acc, t % B))
Mul(x, y) == IF Len(x) = 0 \/ Len(y) = 0 THEN <<>> ELSE MulC(x, y, 1, 0, <<>>)
AddC(x, y, k, c, acc) == IF k > Max(Len(x), Len(y)) THEN (IF c = 0 THEN acc ELSE Append(acc, c))
   ELSE LET t == Limb(x, k) + Limb(y, k) + c IN AddC(x, y, k + 1, t \div B, Append(acc, t % B))
Add(x, y) == AddC(x, y, 1, 0, <<>>)
SubC(x, y, k, b, acc) == IF k > Max(Len(x), Len(y)) THEN <<acc, b>>
   ELSE LET t == Limb(x, k) - Limb(y, k) - b
        IN IF t < 0 THEN SubC(x, y, k + 1, 1, Append(acc, t + B)) ELSE SubC(x, y, k + 1, 0, Append(acc, t))
Sub(x, y) == SubC(x, y, 1, 0, <<>>)[1]
GE(x, y) == SubC(x, y, 1, 0, <<>>)[2] = 0
RECURSIVE IsZeroSeq(_, _), Rep(_, _, _), FixR(_, _, _, _)
IsZeroSeq(x, i) == IF i > Len(x) THEN TRUE ELSE x[i] = 0 /\ IsZeroSeq(x, i + 1)
Rep(v, n, acc) == IF n = 0 THEN acc ELSE Rep(v, n - 1, Append(acc, v))
FixR(x, k, n, acc) == IF k > n THEN acc ELSE FixR(x, k + 1, n, Append(acc, Limb(x, k)))
\* ---- the two curves.  Bits = D*12 + R;  P as digits;  FoldC = 2^Bits mod p;  A24 = (A - 2) / 4;  N = byte length
Cv(c) == IF c = "x25519"
         THEN [bits |-> 255, d |-> 21, r |-> 3, n |-> 32, nd |-> 22, a24 |-> <<2881, 29>>, foldc |-> <<19>>,
               p |-> Append(<<4077>> \o Rep(4095, 20, <<>>), 7)]                                  \* 2^255 - 19
         ELSE [bits |-> 448, d |-> 37, r |-> 4, n |-> 56, nd |-> 38, a24 |-> <<2217, 9>>,                      \* 39081
               foldc |-> Append(<<1>> \o Rep(0, 17, <<>>), 256),                                   \* 2^224 + 1 : digit 19 = 2^(224-216)
               p |-> Rep(4095, 18, <<>>) \o <<4095 - 256>> \o Rep(4095, 18, <<>>) \o <<15>>]       \* 2^448 - 2^224 - 1
RECURSIVE HiR(_, _, _, _, _)
HiR(x, c, k, n, acc) == IF k > n THEN acc
                        ELSE HiR(x, c, k + 1, n, Append(acc, (Limb(x, c.d + k) \div (2^c.r)) + ((Limb(x, c.d + 1 + k) % (2^c.r)) * (2^(12 - c.r)))))
HiBits(x, c) == HiR(x, c, 1, Max(Len(x) - c.d, 1), <<>>)
RECURSIVE LoR(_, _, _, _)
LoR(x, c, k, acc) == IF k > c.nd THEN acc ELSE LoR(x, c, k + 1, Append(acc, IF k < c.nd THEN Limb(x, k) ELSE Limb(x, c.nd) % (2^c.r)))
LoBits(x, c) == LoR(x, c, 1, <<>>)
RECURSIVE Fold(_, _)
Fold(x, c) == LET hi == HiBits(x, c) IN IF IsZeroSeq(hi, 1) THEN LoBits(x, c) ELSE Fold(Add(LoBits(x, c), Mul(hi, c.foldc)), c)
Red(x, c) == LET y == Fold(x, c) IN FixR(IF GE(y, c.p) THEN Sub(y, c.p) ELSE y, 1, c.nd, <<>>)
FMul(a, b, c) == Red(Mul(a, b), c)
FAdd(a, b, c) == Red(Add(a, b), c)
FSub(a, b, c) == Red(Add(a, Sub(c.p, b)), c)                \* a, b canonical
\* ---- bytes
ByteBit(bs, n) == IF (n \div 8) + 1 > Len(bs) THEN 0 ELSE (bs[(n \div 8) + 1] \div (2^(n % 8))) % 2
RECURSIVE LimbFromBits(_, _, _), B2L(_, _, _, _)
LimbFromBits(bs, k, b) == IF b = 12 THEN 0 ELSE ByteBit(bs, 12 * (k - 1) + b) * (2^b) + LimbFromBits(bs, k, b + 1)
B2L(bs, k, n, acc) == IF k > n THEN acc ELSE B2L(bs, k + 1, n, Append(acc, LimbFromBits(bs, k, 0)))
BytesToLimbs(bs, c) == B2L(bs, 1, c.nd, <<>>)
Clamp(kb, c) == IF c.n = 32 THEN [i \in 1..32 |-> IF i = 1 THEN kb[1] - (kb[1] % 8) ELSE IF i = 32 THEN (kb[32] % 64) + 64 ELSE kb[i]]
                ELSE [i \in 1..56 |-> IF i = 1 THEN kb[1] - (kb[1] % 4) ELSE IF i = 56 THEN (kb[56] % 128) + 128 ELSE kb[i]]
MaskU(ub, c) == IF c.n = 32 THEN [i \in 1..32 |-> IF i = 32 THEN ub[32] % 128 ELSE ub[i]] ELSE ub
VARIABLES pc, bad, x1, x2, z2, x3, z3, t, swap, ph, ks, cv
vars == <<pc, bad, x1, x2, z2, x3, z3, t, swap, ph, ks, cv>>
J == Jobs[pc]
Done == pc > Len(Jobs)
One(c) == FixR(<<1>>, 1, c.nd, <<>>)
Zero(c) == FixR(<<0>>, 1, c.nd, <<>>)
KBit(i) == (ks[(i \div 8) + 1] \div (2^(i % 8))) % 2
Start == /\ ~Done /\ ph = "start"
         /\ LET c == Cv(J.curve)
                u == Red(BytesToLimbs(MaskU(J.u, c), c), c)
            IN /\ x1' = u /\ x2' = One(c) /\ z2' = Zero(c) /\ x3' = u /\ z3' = One(c) /\ cv' = c       \* the curve record is built once per job
               /\ ks' = Clamp(J.k, c) /\ t' = c.bits - 1
         /\ swap' = 0 /\ ph' = "ladder" /\ UNCHANGED <<pc, bad>>
Step == /\ ph = "ladder" /\ t >= 0
        /\ LET c == cv
               kt == KBit(t)
               sw == (swap + kt) % 2
               a2 == IF sw = 1 THEN x3 ELSE x2     c2 == IF sw = 1 THEN z3 ELSE z2
               a3 == IF sw = 1 THEN x2 ELSE x3     c3 == IF sw = 1 THEN z2 ELSE z3
               A == FAdd(a2, c2, c)     AA == FMul(A, A, c)
               Bv == FSub(a2, c2, c)    BB == FMul(Bv, Bv, c)
               E == FSub(AA, BB, c)
               Cc == FAdd(a3, c3, c)    D == FSub(a3, c3, c)
               DA == FMul(D, A, c)      CB == FMul(Cc, Bv, c)
               s1 == FAdd(DA, CB, c)    d1 == FSub(DA, CB, c)
           IN /\ x3' = FMul(s1, s1, c)
              /\ z3' = FMul(x1, FMul(d1, d1, c), c)
              /\ x2' = FMul(AA, BB, c)
              /\ z2' = FMul(E, FAdd(AA, FMul(c.a24, E, c), c), c)
              /\ swap' = kt
        /\ t' = t - 1 /\ UNCHANGED <<pc, bad, x1, ph, ks, cv>>
Finish == /\ ph = "ladder" /\ t < 0
          /\ LET C == cv
                 fx == IF swap = 1 THEN x3 ELSE x2
                 fz == IF swap = 1 THEN z3 ELSE z2
                 w == BytesToLimbs(J.want, C)
                 good == /\ Len(J.want) = C.n /\ ~GE(w, C.p)
                         /\ (C.n = 32 => J.want[32] < 128)
                         /\ IF IsZeroSeq(fz, 1) THEN IsZeroSeq(w, 1) ELSE FMul(w, fz, C) = fx
             IN bad' = IF good THEN bad ELSE bad \cup {pc}
          /\ pc' = pc + 1 /\ ph' = "start" /\ UNCHANGED <<x1, x2, z2, x3, z3, t, swap, ks, cv>>
Init == pc = 1 /\ bad = {} /\ x1 = <<>> /\ x2 = <<>> /\ z2 = <<>> /\ x3 = <<>> /\ z3 = <<>> /\ t = 0 /\ swap = 0 /\ ph = "start" /\ ks = <<>> /\ cv = <<>>
Next == Start \/ Step \/ Finish
Spec == Init /\ [][Next]_vars
ASSUME TLCSet(1, 0) /\ TLCSet(2, {})
HighWater == IF pc > TLCGet(1) THEN TLCSet(1, pc) /\ TLCSet(2, bad) ELSE TRUE
Verdict == JsonSerialize("verdict.json", [consumed |-> TLCGet(1) - 1, total |-> Len(Jobs), bad |-> TLCGet(2)])
====
