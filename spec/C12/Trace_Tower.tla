---- MODULE Trace_Tower ----
EXTENDS TowerMachine, TLC, Json
VARIABLES l, bad
INSTANCE LinesTrace WITH Ok <- OkTower
ASSUME TLCSet(1, 0) /\ TLCSet(2, {}) /\ TLCSet(3, ndJsonDeserialize("trace.ndjson"))
====
