---- MODULE MC_ToyField ----
(* The relations of FieldMachine instantiated with small primes of the same shapes as the real ones
   (p = 3 mod 4, p = 5 mod 8, p = 1 mod 8), checked EXHAUSTIVELY: they hold for the true field operations
   (so the trace spec accepts every correct implementation: no false alarm) and they pin the result down
   (a wrong destination residue is rejected), including the square-root / non-residue-certificate convention. *)
EXTENDS Integers, FiniteSets, TLC
Primes == {7, 13, 17}                      \* 7 = 3 mod 4 ; 13 = 5 mod 8 ; 17 = 1 mod 8
Fp(p) == 0..(p-1)
IsQR(x, p) == \E w \in Fp(p) : ((w*w) % p) = (x % p)
NonRes(p) == CHOOSE n \in 2..(p-1) : ~IsQR(n, p)
Axioms(p) == /\ \A a, b, c \in Fp(p) : ((((a*b) % p) * c) % p) = ((a * ((b*c) % p)) % p) /\ ((a * ((b+c) % p)) % p) = ((((a*b) % p) + ((a*c) % p)) % p)
             /\ \A a \in Fp(p) \ {0} : \E i \in Fp(p) : ((a*i) % p) = 1
\* congruence with quotient hints, as in BigNat!Congr, on plain integers
CongrI(a, b, p) == \E qa \in 0..(a \div p), qb \in 0..(b \div p) : a - qa*p = b - qb*p /\ a - qa*p < p /\ a - qa*p >= 0
Sound(p) == \A x, y \in 0..(2*p) :       \* operands may be unreduced
   /\ \A z \in 0..(2*p) : CongrI(x*y, z, p) <=> ((z % p) = ((x*y) % p))                 \* "mul" accepts exactly the right residue class
   /\ \A z \in 0..(2*p) : CongrI(x + (16*p - y), z, p) <=> ((z % p) = ((x + 16*p - y) % p))   \* "sub" through a multiple of p
Certificates(p) == \A x, y \in Fp(p) \ {0} :
   LET n == NonRes(p) IN
   (\E z \in Fp(p) : ((z*z*y) % p) = x) # (\E w \in Fp(p) : ((w*w*y) % p) = ((n*x) % p))
ASSUME \A p \in Primes : Axioms(p) /\ Sound(p) /\ Certificates(p)
====
