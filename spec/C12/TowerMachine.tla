---- MODULE TowerMachine ----
(* C12, the BLS12-381 tower.  Fp2 = Fp[u]/(u^2 + 1), Fp6 = Fp2[v]/(v^3 - (1 + u)), Fp12 = Fp6[w]/(w^2 - v): elements are lists of 2 / 6 / 12
   Fp coefficients (BigNat digits, in the order c0 + c1 u; a0 + a1 v + a2 v^2; b0 + b1 w).  The expected result of an operation is computed HERE
   from the reduction polynomials, over the integers, as pairs (positive part, negative part) so that no subtraction is ever needed; a
   recorded result coefficient z_i is right iff   pos_i = z_i + neg_i  (mod p), which TLC checks with untrusted quotient hints.
   Operations: add, sub, neg, mul, sqr, inv (z * x = 1, or z = 0 for x = 0), cjg (conjugation of the top extension), mulxi (Fp2: times 1 + u;
   Fp6: times v), and every operand that is not the destination must be unchanged (the recorder passes all of x, y before and after). *)
EXTENDS BigNat, FieldConsts
P == Modulus("bls12381fp")
Wd(a) == <<a, <<>>>>
WAdd(x, y) == <<Add(x[1], y[1]), Add(x[2], y[2])>>
WSub(x, y) == <<Add(x[1], y[2]), Add(x[2], y[1])>>
WNeg(x) == <<x[2], x[1]>>
WMul(x, y) == <<Add(Mul(x[1], y[1]), Mul(x[2], y[2])), Add(Mul(x[1], y[2]), Mul(x[2], y[1]))>>
\* ---- Fp2: <<c0, c1>>
F2Add(x, y) == <<WAdd(x[1], y[1]), WAdd(x[2], y[2])>>
F2Sub(x, y) == <<WSub(x[1], y[1]), WSub(x[2], y[2])>>
F2Neg(x) == <<WNeg(x[1]), WNeg(x[2])>>
F2Mul(x, y) == <<WSub(WMul(x[1], y[1]), WMul(x[2], y[2])), WAdd(WMul(x[1], y[2]), WMul(x[2], y[1]))>>          \* u^2 = -1
F2Xi(a) == <<WSub(a[1], a[2]), WAdd(a[1], a[2])>>                                                                \* times (1 + u)
F2Cjg(x) == <<x[1], WNeg(x[2])>>
\* ---- Fp6: <<a0, a1, a2>> over Fp2, v^3 = xi
F6Add(x, y) == <<F2Add(x[1], y[1]), F2Add(x[2], y[2]), F2Add(x[3], y[3])>>
F6Sub(x, y) == <<F2Sub(x[1], y[1]), F2Sub(x[2], y[2]), F2Sub(x[3], y[3])>>
F6Neg(x) == <<F2Neg(x[1]), F2Neg(x[2]), F2Neg(x[3])>>
F6Mul(x, y) == << F2Add(F2Mul(x[1], y[1]), F2Xi(F2Add(F2Mul(x[2], y[3]), F2Mul(x[3], y[2])))),
                  F2Add(F2Add(F2Mul(x[1], y[2]), F2Mul(x[2], y[1])), F2Xi(F2Mul(x[3], y[3]))),
                  F2Add(F2Add(F2Mul(x[1], y[3]), F2Mul(x[2], y[2])), F2Mul(x[3], y[1])) >>
F6V(a) == <<F2Xi(a[3]), a[1], a[2]>>                                                                             \* times v
\* ---- Fp12: <<b0, b1>> over Fp6, w^2 = v
F12Add(x, y) == <<F6Add(x[1], y[1]), F6Add(x[2], y[2])>>
F12Sub(x, y) == <<F6Sub(x[1], y[1]), F6Sub(x[2], y[2])>>
F12Neg(x) == <<F6Neg(x[1]), F6Neg(x[2])>>
F12Mul(x, y) == <<F6Add(F6Mul(x[1], y[1]), F6V(F6Mul(x[2], y[2]))), F6Add(F6Mul(x[1], y[2]), F6Mul(x[2], y[1]))>>
F12Cjg(x) == <<x[1], F6Neg(x[2])>>
\* ---- lists of coefficients <-> nested elements
E2(c, o) == <<Wd(c[o + 1]), Wd(c[o + 2])>>
E6(c, o) == <<E2(c, o), E2(c, o + 2), E2(c, o + 4)>>
E12(c, o) == <<E6(c, o), E6(c, o + 6)>>
Fl2(e) == <<e[1], e[2]>>
Fl6(e) == Fl2(e[1]) \o Fl2(e[2]) \o Fl2(e[3])
Fl12(e) == Fl6(e[1]) \o Fl6(e[2])
OneList(n) == [i \in 1..n |-> IF i = 1 THEN <<1>> ELSE <<>>]
Expected(f, op, x, y) ==
  CASE f = "fp2" -> Fl2(CASE op = "add" -> F2Add(E2(x, 0), E2(y, 0)) [] op = "sub" -> F2Sub(E2(x, 0), E2(y, 0)) [] op = "neg" -> F2Neg(E2(x, 0))
                          [] op \in {"mul", "inv"} -> F2Mul(E2(x, 0), E2(y, 0)) [] op = "sqr" -> F2Mul(E2(x, 0), E2(x, 0))
                          [] op = "cjg" -> F2Cjg(E2(x, 0)) [] op = "mulxi" -> F2Xi(E2(x, 0)))
    [] f = "fp6" -> Fl6(CASE op = "add" -> F6Add(E6(x, 0), E6(y, 0)) [] op = "sub" -> F6Sub(E6(x, 0), E6(y, 0)) [] op = "neg" -> F6Neg(E6(x, 0))
                          [] op \in {"mul", "inv"} -> F6Mul(E6(x, 0), E6(y, 0)) [] op = "sqr" -> F6Mul(E6(x, 0), E6(x, 0))
                          [] op = "mulxi" -> F6V(E6(x, 0)))
    [] f = "fp12" -> Fl12(CASE op = "add" -> F12Add(E12(x, 0), E12(y, 0)) [] op = "sub" -> F12Sub(E12(x, 0), E12(y, 0)) [] op = "neg" -> F12Neg(E12(x, 0))
                            [] op \in {"mul", "inv"} -> F12Mul(E12(x, 0), E12(y, 0)) [] op = "sqr" -> F12Mul(E12(x, 0), E12(x, 0))
                            [] op = "cjg" -> F12Cjg(E12(x, 0)))
AllZero(c) == \A i \in 1..Len(c) : IsZeroN(c[i])
\* r: [f, op, x, y, z, xafter, yafter, qa, qb]; for "inv" the recorder passes y = the claimed inverse z and the check is x * z = 1
OkTower(r) ==
  LET n == Len(r.x)
      target == IF r.op = "inv" THEN OneList(n) ELSE r.z
      e == Expected(r.f, r.op, r.x, r.y)
  IN /\ n = (CASE r.f = "fp2" -> 2 [] r.f = "fp6" -> 6 [] r.f = "fp12" -> 12) /\ Len(r.z) = n
     /\ \A i \in 1..n : IsDigits(r.z[i]) /\ Less(Norm(r.z[i]), P)                                  \* coefficients are canonical residues
     /\ IF r.op = "inv" /\ AllZero(r.x) THEN AllZero(r.z)
        ELSE \A i \in 1..n : Congr(e[i][1], Add(target[i], e[i][2]), P, r.qa[i], r.qb[i])
     /\ r.xafter = r.x /\ (r.op = "inv" \/ r.yafter = r.y)                                          \* operands unchanged (aliasing patterns included)
====
