---- MODULE Trace_FqSqrt ----
(* C12.  fqSqrt of ecc/fourq - the square root of u / v in GF(p^2), p = 2^127 - 1, i^2 = -1, with the sign rule of point decoding - judged
   line by line.  u / v is a square of GF(p^2) exactly when its norm is a residue of GF(p), i.e. when N(u) N(v) is one; the recorder's
   certificate w (w^2 = N(u) N(v), or w^2 = -N(u) N(v) for a non-residue: -1 is a non-residue since p = 3 mod 4) lets TLC decide that, and then
       square      : the result c or its conjugate must satisfy c^2 v = u (both components; the function's contract, as Point.Unmarshal uses it,
                     is "a root up to conjugation": the caller negates the imaginary part when the point is not on the curve), and unless
                     c = 0 have the requested sign - the sign of the real part,
                     of the imaginary part when the real part is zero; a component is negative when its reduced value has bit 126 set
       non-square  : nothing is required of c
   TLC reduces modulo p itself (2^127 = 1).  A function that gives up on real non-residues, whose roots are purely imaginary, is rejected. *)
EXTENDS Integers, Sequences, TLC, Json
VARIABLES l, bad
B == 4096
Max(a, b) == IF a > b THEN a ELSE b
Min(a, b) == IF a < b THEN a ELSE b
Limb(x, i) == IF i <= Len(x) THEN x[i] ELSE 0
RECURSIVE SumR(_, _, _, _, _), MulC(_, _, _, _, _), AddC(_, _, _, _, _), SubC(_, _, _, _, _)
SumR(x, y, k, i, hi) == IF i > hi THEN 0 ELSE x[i] * y[k - i + 1] + SumR(x, y, k, i + 1, hi)
Col(x, y, k) == SumR(x, y, k, Max(1, k - Len(y) + 1), Min(k, Len(x)))
MulC(x, y, k, c, acc) == IF k > Len(x) + Len(y) THEN acc
                         ELSE LET t == (IF k < Len(x) + Len(y) THEN Col(x, y, k) ELSE 0) + c
                              IN MulC(x, y, k + 1, t \div B, Append(acc, t % B))
Mul(x, y) == IF Len(x) = 0 \/ Len(y) = 0 THEN <<>> ELSE MulC(x, y, 1, 0, <<>>)
AddC(x, y, k, c, acc) == IF k > Max(Len(x), Len(y)) THEN (IF c = 0 THEN acc ELSE Append(acc, c))
   ELSE LET t == Limb(x, k) + Limb(y, k) + c IN AddC(x, y, k + 1, t \div B, Append(acc, t % B))
Add(x, y) == AddC(x, y, 1, 0, <<>>)
SubC(x, y, k, b, acc) == IF k > Max(Len(x), Len(y)) THEN <<acc, b>>
   ELSE LET t == Limb(x, k) - Limb(y, k) - b
        IN IF t < 0 THEN SubC(x, y, k + 1, 1, Append(acc, t + B)) ELSE SubC(x, y, k + 1, 0, Append(acc, t))
Sub(x, y) == SubC(x, y, 1, 0, <<>>)[1]
GE(x, y) == SubC(x, y, 1, 0, <<>>)[2] = 0
RECURSIVE IsZeroSeq(_, _), Rep(_, _, _), FixR(_, _, _, _)
IsZeroSeq(x, i) == IF i > Len(x) THEN TRUE ELSE x[i] = 0 /\ IsZeroSeq(x, i + 1)
Rep(v, n, acc) == IF n = 0 THEN acc ELSE Rep(v, n - 1, Append(acc, v))
FixR(x, k, n, acc) == IF k > n THEN acc ELSE FixR(x, k + 1, n, Append(acc, Limb(x, k)))
\* ---- the two curves.  Bits = D*12 + R;  P as digits;  FoldC = 2^Bits mod p;  A24 = (A - 2) / 4;  N = byte length

Cq == [bits |-> 127, d |-> 10, r |-> 7, n |-> 16, nd |-> 11, foldc |-> <<1>>, p |-> Rep(4095, 10, <<>>) \o <<127>>]              \* 2^127 - 1
RECURSIVE HiR(_, _, _, _, _)
HiR(x, c, k, n, acc) == IF k > n THEN acc
                        ELSE HiR(x, c, k + 1, n, Append(acc, (Limb(x, c.d + k) \div (2^c.r)) + ((Limb(x, c.d + 1 + k) % (2^c.r)) * (2^(12 - c.r)))))
HiBits(x, c) == HiR(x, c, 1, Max(Len(x) - c.d, 1), <<>>)
RECURSIVE LoR(_, _, _, _)
LoR(x, c, k, acc) == IF k > c.nd THEN acc ELSE LoR(x, c, k + 1, Append(acc, IF k < c.nd THEN Limb(x, k) ELSE Limb(x, c.nd) % (2^c.r)))
LoBits(x, c) == LoR(x, c, 1, <<>>)
RECURSIVE Fold(_, _)
Fold(x, c) == LET hi == HiBits(x, c) IN IF IsZeroSeq(hi, 1) THEN LoBits(x, c) ELSE Fold(Add(LoBits(x, c), Mul(hi, c.foldc)), c)
Red(x, c) == LET y == Fold(x, c) IN FixR(IF GE(y, c.p) THEN Sub(y, c.p) ELSE y, 1, c.nd, <<>>)
FMul(a, b, c) == Red(Mul(a, b), c)
FAdd(a, b, c) == Red(Add(a, b), c)
FSub(a, b, c) == Red(Add(a, Sub(c.p, b)), c)                \* a, b canonical
\* ---- bytes

M(x) == Red(x, Cq)
FM(a, b) == FMul(a, b, Cq)
FA(a, b) == FAdd(a, b, Cq)
FS(a, b) == FSub(a, b, Cq)
Zero == FixR(<<0>>, 1, Cq.nd, <<>>)
Nrm(z) == FA(FM(z[1], z[1]), FM(z[2], z[2]))
Sgn1(x) == IF x = Zero THEN 0 ELSE IF (x[11] \div 64) % 2 = 1 THEN -1 ELSE 1                     \* bit 126 = bit 6 of digit 11
Sgn(c) == IF Sgn1(c[1]) # 0 THEN Sgn1(c[1]) ELSE Sgn1(c[2])
OkLine(r) ==
  LET u == <<M(r.u[1]), M(r.u[2])>>   v == <<M(r.v[1]), M(r.v[2])>>   w == M(r.w)
      nn == FM(Nrm(u), Nrm(v))
      certified == IF r.square THEN FM(w, w) = nn ELSE FM(w, w) = FS(Zero, nn) /\ nn # Zero
  IN /\ r.panics = 0 /\ certified
     /\ (r.square /\ v # <<Zero, Zero>>) =>
           LET c == <<M(r.c[1]), M(r.c[2])>>
               re == FS(FM(c[1], c[1]), FM(c[2], c[2]))   im == FA(FM(c[1], c[2]), FM(c[1], c[2]))
               Root(imv) == FS(FM(re, v[1]), FM(imv, v[2])) = u[1] /\ FA(FM(re, v[2]), FM(imv, v[1])) = u[2]
           IN /\ (Root(im) \/ Root(FS(Zero, im)))                \* c or its conjugate: the caller (Point.Unmarshal) tries both
              /\ (c # <<Zero, Zero>> => Sgn(c) = r.s)
INSTANCE LinesTrace WITH Ok <- OkLine
ASSUME TLCSet(1, 0) /\ TLCSet(2, {}) /\ TLCSet(3, ndJsonDeserialize("trace.ndjson"))
====
