---- MODULE FieldMachine ----
(* C12.  Finite-field and scalar-field operations as steps of a register machine: each step names the operation,
   the register values before (pre) and after (post) the call, and says what must hold:
     - the destination is congruent, modulo the field's prime, to the mathematical result (ANY representative the
       element type admits is fine: elements may be unreduced);
     - canonicalising operations (reduction, byte export, zero / equality tests) behave as on the unique
       representative below the modulus;
     - every register that is not a destination is unchanged bit for bit (aliased destinations included).
   Values are BigNat digit sequences; quotients are untrusted hints supplied by the recorder.               *)
EXTENDS BigNat, FieldConsts, FiniteSets, TLC
P(e) == Modulus(e.f)
KP(e) == Mul(P(e), Pow2(16))                       \* a multiple of p above every representable element (elements < 2^16 p)
KPP(e) == Mul(Mul(P(e), P(e)), Pow2(40))           \* a multiple of p above every product of two elements
C(a, b, e, i) == Congr(a, b, P(e), e.qa[i], e.qb[i])        \* i-th congruence of the step uses the i-th pair of hints
Unch(e, regs) == \A r \in regs : e.post[r] = e.pre[r]
X(e) == e.pre[e.x]
Y(e) == e.pre[e.y]
Z(e) == e.post[e.z]
Regs(e) == 1..Len(e.pre)
Others(e, dst) == Regs(e) \ dst
OkStep(e) ==
  /\ e.f \in FieldNames /\ Len(e.post) = Len(e.pre) /\ Eq(e.p, P(e))           \* the library's own modulus is the specified one
  /\ \A r \in Regs(e) : IsDigits(e.pre[r]) /\ IsDigits(e.post[r])
  /\ CASE e.op = "mul" -> C(Mul(X(e), Y(e)), Z(e), e, 1) /\ Unch(e, Others(e, {e.z}))
       [] e.op = "sqr" -> C(Mul(X(e), X(e)), Z(e), e, 1) /\ Unch(e, Others(e, {e.z}))
       [] e.op = "add" -> C(Add(X(e), Y(e)), Z(e), e, 1) /\ Unch(e, Others(e, {e.z}))
       [] e.op = "sub" -> C(Add(X(e), Sub(KP(e), Y(e))), Z(e), e, 1) /\ Unch(e, Others(e, {e.z}))
       [] e.op = "neg" -> C(Sub(KP(e), X(e)), Z(e), e, 1) /\ Unch(e, Others(e, {e.z}))
       [] e.op = "muladd" -> C(Add(Mul(X(e), Y(e)), Mul(e.pre[e.u], e.pre[e.v])), Z(e), e, 1) /\ Unch(e, Others(e, {e.z}))    \* z = x*y + u*v
       [] e.op = "mulsub" -> C(Add(Mul(X(e), Y(e)), Sub(KPP(e), Mul(e.pre[e.u], e.pre[e.v]))), Z(e), e, 1) /\ Unch(e, Others(e, {e.z}))   \* z = x*y - u*v
       [] e.op = "fma" -> C(Add(Mul(X(e), Y(e)), e.pre[e.u]), Z(e), e, 1) /\ Unch(e, Others(e, {e.z}))                     \* z = x*y + u
       [] e.op = "hlf" -> C(Add(Z(e), Z(e)), X(e), e, 1) /\ Unch(e, Others(e, {e.z}))                                       \* z = x/2
       [] e.op = "addsub" ->        \* (x, y) := (x + y, x - y)
            /\ C(Add(X(e), Y(e)), e.post[e.x], e, 1) /\ C(Add(X(e), Sub(KP(e), Y(e))), e.post[e.y], e, 2)
            /\ Unch(e, Others(e, {e.x, e.y}))
       [] e.op = "inv" ->           \* x invertible: z * x = 1; the result for 0 is asserted only where documented (e.zero_defined)
            /\ IF e.xzero THEN C(X(e), <<>>, e, 1) /\ (e.zero_defined => C(Z(e), <<>>, e, 2))
               ELSE C(Mul(Z(e), X(e)), One, e, 1)
            /\ Unch(e, Others(e, {e.z}))
       [] e.op = "sqrtratio" ->     \* isqr: z^2 * y = x ; otherwise certificate w with w^2 * y = N * x (so x/y is a non-residue), x, y nonzero
            /\ IF e.isqr THEN C(Mul(Mul(Z(e), Z(e)), Y(e)), X(e), e, 1)
               ELSE /\ C(Mul(Mul(e.w, e.w), Y(e)), Mul(Small(NonResidue(e.f)), X(e)), e, 1)
                    /\ ~IsZeroN(e.r) /\ C(Mul(X(e), Y(e)), e.r, e, 2) /\ Less(Norm(e.r), P(e))       \* x*y mod p = r # 0
            /\ Unch(e, Others(e, {e.z}))
       [] e.op = "canon" ->         \* in-place or copying reduction / byte export: z is THE representative below p
            /\ C(X(e), Z(e), e, 1) /\ Less(Norm(Z(e)), P(e)) /\ Unch(e, Others(e, {e.z, e.x}))
            /\ (e.post[e.x] = e.pre[e.x] \/ e.post[e.x] = Z(e))                 \* the operand may be left as is or canonicalised in place (ToBytes)
       [] e.op = "iszero" -> /\ C(X(e), e.r, e, 1) /\ Less(Norm(e.r), P(e)) /\ (e.b = IsZeroN(e.r))
                             /\ Unch(e, Others(e, {e.x}))                                \* the test may canonicalise its own operand
                             /\ C(e.post[e.x], X(e), e, 2)
       [] e.op = "eq" -> /\ C(X(e), e.r, e, 1) /\ C(Y(e), e.r2, e, 2) /\ Less(Norm(e.r), P(e)) /\ Less(Norm(e.r2), P(e))
                         /\ (e.b = Eq(e.r, e.r2))
       [] e.op = "cmov" -> /\ e.post[e.z] = (IF e.b THEN Y(e) ELSE e.pre[e.z]) /\ Unch(e, Others(e, {e.z}))
       [] e.op = "cswap" -> /\ e.post[e.x] = (IF e.b THEN Y(e) ELSE X(e)) /\ e.post[e.y] = (IF e.b THEN X(e) ELSE Y(e))
                            /\ Unch(e, Others(e, {e.x, e.y}))
       [] e.op = "frombytes" ->     \* decoding: either reduces the integer v, or (strict decoders) accepts iff v < p
            /\ IF e.strict THEN (e.ok = Less(Norm(e.vint), P(e))) /\ (e.ok => Eq(Z(e), e.vint))
               ELSE C(e.vint, Z(e), e, 1)
       [] OTHER -> FALSE
====
