---- MODULE Trace_FieldMachine ----
EXTENDS Integers, Sequences, TLC, Json
VARIABLES l, bad
FM == INSTANCE FieldMachine
INSTANCE LinesTrace WITH Ok <- FM!OkStep
ASSUME TLCSet(1, 0) /\ TLCSet(2, {}) /\ TLCSet(3, ndJsonDeserialize("trace.ndjson"))
====
