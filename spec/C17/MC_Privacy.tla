---- MODULE MC_Privacy ----
EXTENDS Integers, Sequences, FiniteSets, TLC
VARIABLES t, n, coef, picked, result, probe
S7 == INSTANCE Shamir WITH Q <- 7, P <- 29, G <- 16, MaxT <- 2, MaxN <- 3
ASSUME S7!PowMod(16, 7, 29) = 1
ASSUME S7!Privacy
Init == t = 0 /\ n = 0 /\ coef = <<>> /\ picked = <<>> /\ result = <<"none">> /\ probe = <<>>
Next == UNCHANGED <<t, n, coef, picked, result, probe>>
====
