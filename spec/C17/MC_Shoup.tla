---- MODULE MC_Shoup ----
EXTENDS Shoup
ASSUME AllExact(2) /\ AllExact(3) /\ AllExact(4) /\ AllExact(5)      \* Delta*num is always divisible by den
ASSUME Good(2, 1) /\ Good(2, 2) /\ Good(3, 2) /\ Good(3, 3) /\ Good(4, 2)   \* every qualified ordered subset signs correctly
ASSUME Good(4, 3) /\ Good(5, 2)
====
