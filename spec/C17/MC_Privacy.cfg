INIT Init
NEXT Next
