CONSTANTS MaxN = 5
 MaxL = 8
