---- MODULE Trace_Threshold ----
(* Judges what the real secretsharing / math/polynomial / tss/rsa code did.
   "ss":   one Shamir/Feldman scenario on a real group: recover class and Feldman verdicts.
   "poly": Polynomial.Evaluate on small integer coefficients (no wrap-around): value must equal Horner over Z.
   "rsa":  CombineSignShares over an ordered player subset, verified with crypto/rsa by the driver.
   "lambda": tss/rsa computeLambda output vs the exact integer Lagrange coefficient of Shoup.tla.
   "rpoly":  tss/rsa computePolynomial output vs PolyEval mod m.                                 *)
EXTENDS Integers, Sequences, FiniteSets, TLC, Json
VARIABLES l, bad
Sh == INSTANCE Shoup
RECURSIVE HornerZ(_,_,_)
HornerZ(c, x, i) == IF i = 0 THEN 0 ELSE HornerZ(c, x, i-1) * x + c[Len(c) - i + 1]
OkSS(r) == /\ r.recover = (IF Len(r.pick) > r.t THEN "secret" ELSE "error")
           /\ r.verify_dealt = TRUE /\ r.verify_badval = FALSE /\ r.verify_badid = FALSE
\* "ss-huge": a threshold of 2^63 or more (r.ids names it): r.n shares are never qualified, no share verifies, nothing panics
\* (verify_badval is the driver's flag "a Verify call panicked")
OkHuge(r) == r.recover = "error" /\ r.verify_dealt = FALSE /\ r.verify_badid = FALSE /\ r.verify_badval = FALSE
OkPoly(r) == r.val = HornerZ(r.coef, r.x, Len(r.coef))
OkRSA(r) == r.result = (IF Len(r.pick) >= r.k THEN "valid" ELSE "error")
OkLambda(r) == r.lam = Sh!Lambda(r.S, r.j, Sh!Fact(r.l))
OkRPoly(r) == r.val = Sh!PolyEval(r.a, r.x, r.m)
OkLine(r) == CASE r.ev = "ss" -> OkSS(r) [] r.ev = "ss-huge" -> OkHuge(r) [] r.ev = "poly" -> OkPoly(r) [] r.ev = "rsa" -> OkRSA(r)
               [] r.ev = "lambda" -> OkLambda(r) [] r.ev = "rpoly" -> OkRPoly(r) [] OTHER -> FALSE
INSTANCE LinesTrace WITH Ok <- OkLine
ASSUME TLCSet(1, 0) /\ TLCSet(2, {}) /\ TLCSet(3, ndJsonDeserialize("trace.ndjson"))
====
