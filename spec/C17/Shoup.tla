---- MODULE Shoup ----
(* C17 (second half).  Shoup's threshold RSA (Protocol 1), executable over a toy safe-prime modulus:
   share polynomial mod m, partial signatures x^(2*Delta*s_i), INTEGER Lagrange coefficients
   lambda = Delta * prod(0 - j') / prod(j - j')  (exact), w = prod x_j^(2 lambda), e' = 4 Delta^2 and the
   extended-gcd correction.  Also the numeric reference for tss/rsa's computeLambda/computePolynomial. *)
EXTENDS Integers, Sequences, FiniteSets, TLC
RECURSIVE PowMod(_,_,_)
PowMod(b, e, n) == IF e = 0 THEN 1 % n ELSE LET h == PowMod(b, e \div 2, n) IN
                   IF (e % 2) = 0 THEN (h*h) % n ELSE (((h*h) % n) * b) % n
RECURSIVE Gcd(_,_)
Gcd(a, b) == IF b = 0 THEN a ELSE Gcd(b, a % b)
InvMod(a, n) == CHOOSE x \in 1..(n-1) : ((a*x) % n) = 1
RECURSIVE Fact(_)
Fact(n) == IF n = 0 THEN 1 ELSE n * Fact(n-1)
Abs(x) == IF x < 0 THEN 0 - x ELSE x
\* f(x) = sum a[i] x^(i-1) mod m, Horner
RECURSIVE PolyEvalH(_,_,_,_)
PolyEvalH(a, x, m, i) == IF i = 0 THEN 0 ELSE (PolyEvalH(a, x, m, i-1) * x + a[Len(a) - i + 1]) % m
PolyEval(a, x, m) == PolyEvalH(a, x, m, Len(a))
RECURSIVE NumS(_,_,_)      \* S as a sequence of player indices;  prod_{j' # j} (i - j')
NumS(S, i, j) == IF S = <<>> THEN 1 ELSE (IF Head(S) = j THEN 1 ELSE (i - Head(S))) * NumS(Tail(S), i, j)
RECURSIVE DenS(_,_)
DenS(S, j) == IF S = <<>> THEN 1 ELSE (IF Head(S) = j THEN 1 ELSE (j - Head(S))) * DenS(Tail(S), j)
Exact(S, j, Delta) == ((Delta * NumS(S, 0, j)) % Abs(DenS(S, j))) = 0
\* exact integer division with sign (TLC's \div floors, so divide magnitudes)
Lambda(S, j, Delta) == LET nn == Delta * NumS(S, 0, j)  dd == DenS(S, j)
                           mag == Abs(nn) \div Abs(dd)
                       IN IF (nn < 0) = (dd < 0) THEN mag ELSE 0 - mag

\* ---- toy instance: p = 2*3+1, q = 2*5+1
N == 77
M == 15
E == 7
D == InvMod(E, M)
PowSigned(b, e, n) == IF e >= 0 THEN PowMod(b, e, n) ELSE PowMod(InvMod(b % n, n), 0 - e, n)
RECURSIVE XGcd(_,_)
XGcd(x, y) == IF y = 0 THEN <<x, 1, 0>> ELSE LET r == XGcd(y, x % y) IN <<r[1], r[3], r[2] - (x \div y) * r[3]>>
RECURSIVE W(_,_,_,_,_)
W(T, S, a, x, Delta) ==
   IF T = <<>> THEN 1
   ELSE LET j == Head(T)
            xi == PowMod(x, 2 * Delta * PolyEval(a, j, M), N)
        IN (PowSigned(xi, 2 * Lambda(S, j, Delta), N) * W(Tail(T), S, a, x, Delta)) % N
Sig(l, S, a, x) ==
   LET Delta == Fact(l)   w == W(S, S, a, x, Delta)   g == XGcd(4 * Delta * Delta, E)
   IN (PowSigned(w, g[2], N) * PowSigned(x, g[3], N)) % N
SeqsOf(l, k) == {s \in [1..k -> 1..l] : \A i, j \in 1..k : i < j => s[i] # s[j]}       \* all ordered k-subsets
Polys(k) == {a \in [1..k -> 0..(M-1)] : a[1] = D}
Good(l, k) == \A S \in SeqsOf(l, k) : \A a \in Polys(k) : \A x \in {2, 3, 10, 76} : PowMod(Sig(l, S, a, x), E, N) = x
AllExact(l) == \A k \in 1..l : \A S \in SeqsOf(l, k) : \A j \in 1..l : (\E i \in 1..k : S[i] = j) => Exact(S, j, Fact(l))
====
