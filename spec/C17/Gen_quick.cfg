CONSTANTS MaxN = 4
 MaxL = 6
