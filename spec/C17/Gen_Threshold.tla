---- MODULE Gen_Threshold ----
(* Scenario tables replayed on the real code: ordered share subsets for Shamir/Feldman and ordered
   player subsets for threshold RSA.  Orders matter to the code (first share's parameters are used,
   Lagrange products are accumulated in list order), so ordered selections are enumerated.      *)
EXTENDS Integers, Sequences, FiniteSets, TLC, Json, SequencesExt
CONSTANTS MaxN, MaxL
Ordered(n, k) == {s \in [1..k -> 1..n] : \A i, j \in 1..k : i < j => s[i] # s[j]}
Sorted(n, k)  == { SetToSortSeq(S, <) : S \in {T \in SUBSET (1..n) : Cardinality(T) = k} }
SS == UNION { { [t |-> t, n |-> n, pick |-> s] : s \in UNION {Ordered(n, k) : k \in {t, t + 1, n}} }
              : t \in 0..(MaxN-1), n \in 1..MaxN }
SSok == { r \in SS : r.n > r.t }
RSA == UNION { { [l |-> l, k |-> k, pick |-> s] : s \in Sorted(l, k) \cup (IF k < l THEN Sorted(l, k+1) ELSE {}) \cup (IF k > 1 THEN Sorted(l, k-1) ELSE {}) }
               : l \in 2..MaxL, k \in 1..MaxL } 
RSAok == { r \in RSA : r.k <= r.l }
ASSUME JsonSerialize("ss.json", SetToSeq(SSok))
ASSUME JsonSerialize("rsa.json", SetToSeq(RSAok))
====
