SPECIFICATION Spec
CONSTANTS Q = 7
 P = 29
 G = 16
 MaxT = 2
 MaxN = 4
INVARIANTS RecoverCorrect RefusedIffFew FeldmanExact
CHECK_DEADLOCK FALSE
