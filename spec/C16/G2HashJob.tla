---- MODULE G2HashJob ----
(* C16 / C13 / C02, anchor.  RFC 9380 hash_to_curve for BLS12381G2_XMD:SHA-256_SSWU_RO_ (the message hash of BLS signatures in G2) as an
   executable behaviour over Fp2 = Fp[i]/(i^2 + 1): hash_to_field (four 64-byte pieces of the expander output, which ExpanderJobs.tla
   recomputes), the simplified SWU map of section 6.6.2 on the isogenous curve y^2 = x^3 + 240i x + 1012(1+i) with Z = -(2+i) - inv0 through the
   norm, the square root through the norm as well (s = sqrt(a^2+b^2), x = sqrt((a +- s)/2), y = b/(2x); all roots and inverses in Fp are
   exponentiations, one action per bit) -, sgn0 of Fp2, the 3-isogeny by Horner's rule into projective coordinates, addition, multiplication by
   h_eff (636 bits, one action per bit) and conversion to affine.  Barrett arithmetic on base-4096 digits; derived constants are checked by
   ASSUME, the isogeny by the condition that mapped points lie on y^2 = x^3 + 4(1+i), everything by the RFC's vector.
   job.json: [uniform (256 bytes), x0, x1, y0, y1 (48 bytes each, big-endian), identity]. *)
EXTENDS Integers, Sequences, TLC, Json
JobIn == JsonDeserialize("job.json")
B == 4096
Max(a, b) == IF a > b THEN a ELSE b
Min(a, b) == IF a < b THEN a ELSE b
Limb(x, i) == IF i <= Len(x) THEN x[i] ELSE 0
RECURSIVE SumR(_, _, _, _, _), MulC(_, _, _, _, _), AddC(_, _, _, _, _), SubC(_, _, _, _, _)
SumR(x, y, k, i, hi) == IF i > hi THEN 0 ELSE x[i] * y[k - i + 1] + SumR(x, y, k, i + 1, hi)
Col(x, y, k) == SumR(x, y, k, Max(1, k - Len(y) + 1), Min(k, Len(x)))
MulC(x, y, k, c, acc) == IF k > Len(x) + Len(y) THEN acc
                         ELSE LET t == (IF k < Len(x) + Len(y) THEN Col(x, y, k) ELSE 0) + c
                              IN MulC(x, y, k + 1, t \div B, Append(acc, t % B))
Mul(x, y) == IF Len(x) = 0 \/ Len(y) = 0 THEN <<>> ELSE MulC(x, y, 1, 0, <<>>)
AddC(x, y, k, c, acc) == IF k > Max(Len(x), Len(y)) THEN (IF c = 0 THEN acc ELSE Append(acc, c))
   ELSE LET t == Limb(x, k) + Limb(y, k) + c IN AddC(x, y, k + 1, t \div B, Append(acc, t % B))
Add(x, y) == AddC(x, y, 1, 0, <<>>)
SubC(x, y, k, b, acc) == IF k > Max(Len(x), Len(y)) THEN <<acc, b>>
   ELSE LET t == Limb(x, k) - Limb(y, k) - b
        IN IF t < 0 THEN SubC(x, y, k + 1, 1, Append(acc, t + B)) ELSE SubC(x, y, k + 1, 0, Append(acc, t))
Sub(x, y) == SubC(x, y, 1, 0, <<>>)[1]
GE(x, y) == SubC(x, y, 1, 0, <<>>)[2] = 0
RECURSIVE IsZeroSeq(_, _), FixR(_, _, _, _)
IsZeroSeq(x, i) == IF i > Len(x) THEN TRUE ELSE x[i] = 0 /\ IsZeroSeq(x, i + 1)
FixR(x, k, n, acc) == IF k > n THEN acc ELSE FixR(x, k + 1, n, Append(acc, Limb(x, k)))
Fix(x, n) == FixR(x, 1, n, <<>>)
SameNat(x, y) == LET n == Max(Len(x), Len(y)) IN Fix(x, n) = Fix(y, n)
Drop(x, n) == IF n >= Len(x) THEN <<>> ELSE SubSeq(x, n + 1, Len(x))
BitOfNat(x, i) == LET dgt == (i \div 12) + 1 IN IF dgt > Len(x) THEN 0 ELSE (x[dgt] \div (2^(i % 12))) % 2

C == [k |-> 32, n |-> 48, l |-> 64,
      p |-> <<2731, 4090, 4095, 4095, 2558, 4091, 1023, 2837, 4094, 2751, 1054, 3938, 1712, 2575, 210, 1651, 703, 2129, 1267, 1208, 1143, 3446, 2988, 1076, 1974, 442, 2635, 3689, 2431, 3747, 273, 416>>,
      mu |-> <<2606, 2331, 1381, 127, 994, 1969, 448, 1423, 1952, 1814, 921, 1949, 2151, 3586, 1905, 3572, 2379, 2570, 4086, 1857, 2946, 657, 1722, 3194, 2828, 257, 3624, 1116, 3230, 3900, 1490, 3459, 9>>,
      pm2 |-> <<2729, 4090, 4095, 4095, 2558, 4091, 1023, 2837, 4094, 2751, 1054, 3938, 1712, 2575, 210, 1651, 703, 2129, 1267, 1208, 1143, 3446, 2988, 1076, 1974, 442, 2635, 3689, 2431, 3747, 273, 416>>,
      sq |-> <<2731, 4094, 4095, 3071, 3711, 4094, 1279, 2757, 4095, 2735, 2311, 984, 3500, 2691, 3124, 3484, 1199, 3604, 316, 3374, 2333, 861, 747, 2317, 2541, 3182, 1682, 3994, 3679, 1960, 68, 104>>,
      heff |-> <<1361, 2709, 1450, 0, 2050, 2894, 3062, 3563, 3082, 2196, 857, 3946, 1673, 3078, 1227, 3733, 3098, 1143, 2519, 3782, 3776, 2818, 530, 1489, 3841, 2091, 1389, 3513, 1841, 376, 3119, 809, 4065, 143, 789, 4080, 2438, 1673, 2775, 325, 2281, 3626, 2184, 850, 2331, 234, 3178, 1412, 1459, 3815, 2290, 2544, 3014>>]
RECURSIVE CondSub(_)
CondSub(r) == IF GE(r, C.p) THEN CondSub(Sub(r, C.p)) ELSE r
Red(x) == LET q3 == Drop(Mul(Drop(x, C.k - 1), C.mu), C.k + 1) IN Fix(CondSub(Sub(x, Mul(q3, C.p))), C.k)
FM(a, b) == Red(Mul(a, b))
FA(a, b) == LET s == Add(a, b) IN Fix(IF GE(s, C.p) THEN Sub(s, C.p) ELSE s, C.k)          \* operands below p
FS(a, b) == Fix(IF GE(a, b) THEN Sub(a, b) ELSE Sub(Add(a, C.p), b), C.k)
Zero == Fix(<<0>>, C.k)
One == Fix(<<1>>, C.k)
FNeg(a) == FS(Zero, a)
P2 == Mul(C.p, C.p)
InvTwo == <<1366, 4093, 4095, 2047, 3327, 4093, 2559, 1418, 4095, 1375, 527, 1969, 2904, 1287, 2153, 2873, 2399, 3112, 633, 2652, 571, 1723, 1494, 538, 987, 2269, 3365, 3892, 3263, 3921, 136, 208>>
ASSUME /\ GE(Fix(<<>>, 2 * C.k) \o <<1>>, Mul(C.mu, C.p)) /\ ~GE(Fix(<<>>, 2 * C.k) \o <<1>>, Mul(Add(C.mu, <<1>>), C.p))
       /\ SameNat(Add(C.pm2, <<2>>), C.p) /\ SameNat(Mul(<<4>>, C.sq), Add(C.p, <<1>>)) /\ FA(InvTwo, InvTwo) = One
       /\ GE(Fix(<<>>, 2 * C.k) \o <<1>>, Add(P2, P2))
\* ---- Fp2
Z2 == <<Zero, Zero>>
O2 == <<One, Zero>>
F2A(a, b) == <<FA(a[1], b[1]), FA(a[2], b[2])>>
F2S(a, b) == <<FS(a[1], b[1]), FS(a[2], b[2])>>
F2N(a) == <<FNeg(a[1]), FNeg(a[2])>>
F2M(a, b) == <<Red(Sub(Add(Mul(a[1], b[1]), P2), Mul(a[2], b[2]))), Red(Add(Mul(a[1], b[2]), Mul(a[2], b[1])))>>
Norm(a) == Red(Add(Mul(a[1], a[1]), Mul(a[2], a[2])))
Conj(a) == <<a[1], FNeg(a[2])>>
Scale(a, f) == <<FM(a[1], f), FM(a[2], f)>>
RECURSIVE TimesR(_, _, _)
TimesR(n, a, acc) == IF n = 0 THEN acc ELSE TimesR(n - 1, a, F2A(acc, a))
Times(n, a) == TimesR(n, a, Z2)
Sgn0(a) == IF a[1] = Zero THEN BitOfNat(a[2], 0) ELSE BitOfNat(a[1], 0)
Acoef == <<Zero, Fix(<<240>>, C.k)>>
Bcoef == <<Fix(<<1012>>, C.k), Fix(<<1012>>, C.k)>>
Zcoef == <<FNeg(Fix(<<2>>, C.k)), FNeg(One)>>
EB == <<Fix(<<4>>, C.k), Fix(<<4>>, C.k)>>
C1 == <<<<451, 3275, 3276, 2252, 605, 2183, 2440, 3492, 1091, 2100, 470, 1247, 3068, 3682, 3957, 44, 2339, 1015, 3951, 723, 2956, 2729, 1765, 204, 2127, 754, 766, 3421, 2749, 1937, 3090, 131>>, <<2280, 815, 819, 1843, 1953, 1908, 2679, 3440, 3002, 651, 584, 2691, 2740, 2988, 348, 1606, 2460, 1113, 1412, 484, 2283, 716, 1223, 872, 3943, 3783, 1868, 268, 3778, 1809, 1279, 284>>>>
C2 == <<<<3367, 3931, 3112, 1269, 940, 2894, 2945, 1517, 218, 420, 94, 2707, 613, 3194, 1610, 1647, 2925, 2660, 2428, 3421, 3048, 3822, 3629, 40, 2883, 3427, 2610, 2322, 3007, 1206, 1437, 26>>, <<822, 487, 2949, 286, 3834, 3600, 378, 2380, 3439, 1491, 772, 4009, 3967, 1184, 3570, 804, 119, 2339, 2173, 3231, 188, 170, 291, 954, 1517, 2447, 2994, 817, 1601, 127, 58, 337>>>>
ASSUME F2M(C1, Acoef) = F2N(Bcoef) /\ F2M(C2, F2M(Zcoef, Acoef)) = Bcoef
XN == <<<<<<2006, 2729, 2730, 2730, 568, 454, 2503, 1085, 2275, 611, 3420, 3605, 1290, 572, 1412, 2187, 1066, 928, 2557, 723, 709, 2131, 2029, 1149, 2714, 1463, 3771, 819, 3726, 1287, 1881, 92>>, <<2006, 2729, 2730, 2730, 568, 454, 2503, 1085, 2275, 611, 3420, 3605, 1290, 572, 1412, 2187, 1066, 928, 2557, 723, 709, 2131, 2029, 1149, 2714, 1463, 3771, 819, 3726, 1287, 1881, 92>>>>,
        <<<<0, 0, 0, 0, 0, 0, 0, 0, 0, 0, 0, 0, 0, 0, 0, 0, 0, 0, 0, 0, 0, 0, 0, 0, 0, 0, 0, 0, 0, 0, 0, 0>>, <<1818, 4092, 4095, 4095, 1705, 1362, 3413, 3256, 2729, 1834, 2068, 2625, 3872, 1716, 140, 2466, 3199, 2784, 3575, 2170, 2127, 2297, 1992, 3448, 4046, 294, 3122, 2459, 2986, 3863, 1547, 277>>>>,
        <<<<1822, 4092, 4095, 4095, 1705, 1362, 3413, 3256, 2729, 1834, 2068, 2625, 3872, 1716, 140, 2466, 3199, 2784, 3575, 2170, 2127, 2297, 1992, 3448, 4046, 294, 3122, 2459, 2986, 3863, 1547, 277>>, <<909, 4094, 4095, 4095, 852, 2729, 1706, 3676, 1364, 917, 3082, 1312, 1936, 858, 70, 3281, 1599, 3440, 1787, 3133, 3111, 1148, 996, 1724, 2023, 147, 3609, 1229, 3541, 3979, 2821, 138>>>>,
        <<<<3793, 2725, 2730, 2730, 2274, 1816, 1820, 246, 909, 2446, 1392, 2135, 1067, 2289, 1552, 557, 170, 3713, 2036, 2894, 2836, 332, 4022, 501, 2665, 1758, 2797, 3279, 2616, 1055, 3429, 369>>, <<0, 0, 0, 0, 0, 0, 0, 0, 0, 0, 0, 0, 0, 0, 0, 0, 0, 0, 0, 0, 0, 0, 0, 0, 0, 0, 0, 0, 0, 0, 0, 0>>>>>>
XD == <<<<<<0, 0, 0, 0, 0, 0, 0, 0, 0, 0, 0, 0, 0, 0, 0, 0, 0, 0, 0, 0, 0, 0, 0, 0, 0, 0, 0, 0, 0, 0, 0, 0>>, <<2659, 4090, 4095, 4095, 2558, 4091, 1023, 2837, 4094, 2751, 1054, 3938, 1712, 2575, 210, 1651, 703, 2129, 1267, 1208, 1143, 3446, 2988, 1076, 1974, 442, 2635, 3689, 2431, 3747, 273, 416>>>>,
        <<<<12, 0, 0, 0, 0, 0, 0, 0, 0, 0, 0, 0, 0, 0, 0, 0, 0, 0, 0, 0, 0, 0, 0, 0, 0, 0, 0, 0, 0, 0, 0, 0>>, <<2719, 4090, 4095, 4095, 2558, 4091, 1023, 2837, 4094, 2751, 1054, 3938, 1712, 2575, 210, 1651, 703, 2129, 1267, 1208, 1143, 3446, 2988, 1076, 1974, 442, 2635, 3689, 2431, 3747, 273, 416>>>>,
        <<<<1, 0, 0, 0, 0, 0, 0, 0, 0, 0, 0, 0, 0, 0, 0, 0, 0, 0, 0, 0, 0, 0, 0, 0, 0, 0, 0, 0, 0, 0, 0, 0>>, <<0, 0, 0, 0, 0, 0, 0, 0, 0, 0, 0, 0, 0, 0, 0, 0, 0, 0, 0, 0, 0, 0, 0, 0, 0, 0, 0, 0, 0, 0, 0, 0>>>>>>
YN == <<<<<<1798, 3181, 3185, 3185, 719, 1665, 2351, 3980, 1515, 2242, 252, 3664, 3367, 3463, 1081, 3924, 1179, 2038, 1184, 2653, 3965, 2352, 3345, 118, 395, 2636, 2905, 275, 2740, 1991, 71, 339>>, <<1798, 3181, 3185, 3185, 719, 1665, 2351, 3980, 1515, 2242, 252, 3664, 3367, 3463, 1081, 3924, 1179, 2038, 1184, 2653, 3965, 2352, 3345, 118, 395, 2636, 2905, 275, 2740, 1991, 71, 339>>>>,
        <<<<0, 0, 0, 0, 0, 0, 0, 0, 0, 0, 0, 0, 0, 0, 0, 0, 0, 0, 0, 0, 0, 0, 0, 0, 0, 0, 0, 0, 0, 0, 0, 0>>, <<1982, 2729, 2730, 2730, 568, 454, 2503, 1085, 2275, 611, 3420, 3605, 1290, 572, 1412, 2187, 1066, 928, 2557, 723, 709, 2131, 2029, 1149, 2714, 1463, 3771, 819, 3726, 1287, 1881, 92>>>>,
        <<<<1820, 4092, 4095, 4095, 1705, 1362, 3413, 3256, 2729, 1834, 2068, 2625, 3872, 1716, 140, 2466, 3199, 2784, 3575, 2170, 2127, 2297, 1992, 3448, 4046, 294, 3122, 2459, 2986, 3863, 1547, 277>>, <<911, 4094, 4095, 4095, 852, 2729, 1706, 3676, 1364, 917, 3082, 1312, 1936, 858, 70, 3281, 1599, 3440, 1787, 3133, 3111, 1148, 996, 1724, 2023, 147, 3609, 1229, 3541, 3979, 2821, 138>>>>,
        <<<<2832, 1816, 1820, 1820, 435, 3486, 3147, 1389, 2426, 1936, 590, 1861, 2722, 3177, 2423, 2830, 646, 3622, 1953, 243, 1563, 3335, 282, 3640, 1085, 3952, 3067, 3961, 2924, 3395, 3226, 292>>, <<0, 0, 0, 0, 0, 0, 0, 0, 0, 0, 0, 0, 0, 0, 0, 0, 0, 0, 0, 0, 0, 0, 0, 0, 0, 0, 0, 0, 0, 0, 0, 0>>>>>>
YD == <<<<<<2299, 4090, 4095, 4095, 2558, 4091, 1023, 2837, 4094, 2751, 1054, 3938, 1712, 2575, 210, 1651, 703, 2129, 1267, 1208, 1143, 3446, 2988, 1076, 1974, 442, 2635, 3689, 2431, 3747, 273, 416>>, <<2299, 4090, 4095, 4095, 2558, 4091, 1023, 2837, 4094, 2751, 1054, 3938, 1712, 2575, 210, 1651, 703, 2129, 1267, 1208, 1143, 3446, 2988, 1076, 1974, 442, 2635, 3689, 2431, 3747, 273, 416>>>>,
        <<<<0, 0, 0, 0, 0, 0, 0, 0, 0, 0, 0, 0, 0, 0, 0, 0, 0, 0, 0, 0, 0, 0, 0, 0, 0, 0, 0, 0, 0, 0, 0, 0>>, <<2515, 4090, 4095, 4095, 2558, 4091, 1023, 2837, 4094, 2751, 1054, 3938, 1712, 2575, 210, 1651, 703, 2129, 1267, 1208, 1143, 3446, 2988, 1076, 1974, 442, 2635, 3689, 2431, 3747, 273, 416>>>>,
        <<<<18, 0, 0, 0, 0, 0, 0, 0, 0, 0, 0, 0, 0, 0, 0, 0, 0, 0, 0, 0, 0, 0, 0, 0, 0, 0, 0, 0, 0, 0, 0, 0>>, <<2713, 4090, 4095, 4095, 2558, 4091, 1023, 2837, 4094, 2751, 1054, 3938, 1712, 2575, 210, 1651, 703, 2129, 1267, 1208, 1143, 3446, 2988, 1076, 1974, 442, 2635, 3689, 2431, 3747, 273, 416>>>>,
        <<<<1, 0, 0, 0, 0, 0, 0, 0, 0, 0, 0, 0, 0, 0, 0, 0, 0, 0, 0, 0, 0, 0, 0, 0, 0, 0, 0, 0, 0, 0, 0, 0>>, <<0, 0, 0, 0, 0, 0, 0, 0, 0, 0, 0, 0, 0, 0, 0, 0, 0, 0, 0, 0, 0, 0, 0, 0, 0, 0, 0, 0, 0, 0, 0, 0>>>>>>
\* ---- bytes
ByteBit(bs, n) == IF (n \div 8) + 1 > Len(bs) THEN 0 ELSE (bs[(n \div 8) + 1] \div (2^(n % 8))) % 2
RECURSIVE LimbFromBits(_, _, _), B2L(_, _, _, _), RevR(_, _, _), ToBytesAcc(_, _, _, _)
LimbFromBits(bs, k, b) == IF b = 12 THEN 0 ELSE ByteBit(bs, 12 * (k - 1) + b) * (2^b) + LimbFromBits(bs, k, b + 1)
B2L(bs, k, n, acc) == IF k > n THEN acc ELSE B2L(bs, k + 1, n, Append(acc, LimbFromBits(bs, k, 0)))
RevR(s, i, acc) == IF i = 0 THEN acc ELSE RevR(s, i - 1, Append(acc, s[i]))
Rev(s) == RevR(s, Len(s), <<>>)
OS2IP(bs) == B2L(Rev(bs), 1, ((8 * Len(bs)) + 11) \div 12, <<>>)
ToBytesAcc(x, j, n, acc) == IF j > n THEN acc
                            ELSE LET b0 == 8 * (j - 1)
                                 IN ToBytesAcc(x, j + 1, n, Append(acc, BitOfNat(x,b0) + 2*BitOfNat(x,b0+1) + 4*BitOfNat(x,b0+2) + 8*BitOfNat(x,b0+3)
                                                                + 16*BitOfNat(x,b0+4) + 32*BitOfNat(x,b0+5) + 64*BitOfNat(x,b0+6) + 128*BitOfNat(x,b0+7)))
I2OSP(x, n) == Rev(ToBytesAcc(x, 1, n, <<>>))

Gx(x) == F2A(F2A(F2M(F2M(x, x), x), F2M(Acoef, x)), Bcoef)
RECURSIVE Horner(_, _, _, _)
Horner(cs, x, i, acc) == IF i = 0 THEN acc ELSE Horner(cs, x, i - 1, F2A(F2M(acc, x), cs[i]))
Poly(cs, x) == Horner(cs, x, Len(cs), Z2)
Iso(Q) == LET a == Poly(XN, Q[1])   b == Poly(XD, Q[1])   c == Poly(YN, Q[1])   d == Poly(YD, Q[1])
          IN <<F2M(a, d), F2M(F2M(Q[2], c), b), F2M(b, d)>>
Inf == <<Z2, O2, Z2>>
PDbl(P) == IF P[3] = Z2 \/ P[2] = Z2 THEN Inf
           ELSE LET w == Times(3, F2M(P[1], P[1]))   s == F2M(P[2], P[3])   Bq == F2M(F2M(P[1], P[2]), s)   h == F2S(F2M(w, w), Times(8, Bq))
                IN <<F2M(F2A(h, h), s), F2S(F2M(w, F2S(Times(4, Bq), h)), Times(8, F2M(F2M(P[2], P[2]), F2M(s, s)))), Times(8, F2M(F2M(s, s), s))>>
PAdd(P, Q) == IF P[3] = Z2 THEN Q ELSE IF Q[3] = Z2 THEN P
              ELSE LET u == F2S(F2M(Q[2], P[3]), F2M(P[2], Q[3]))   v == F2S(F2M(Q[1], P[3]), F2M(P[1], Q[3]))
                   IN IF v = Z2 THEN (IF u = Z2 THEN PDbl(P) ELSE Inf)
                      ELSE LET zz == F2M(P[3], Q[3])   vv == F2M(v, v)   vvv == F2M(vv, v)   r == F2M(F2M(vv, P[1]), Q[3])
                               w == F2S(F2S(F2M(F2M(u, u), zz), vvv), F2A(r, r))
                           IN <<F2M(v, w), F2S(F2M(u, F2S(r, w)), F2M(F2M(vvv, P[2]), Q[3])), F2M(vvv, zz)>>
OnE(P) == F2M(F2M(P[2], P[2]), P[3]) = F2A(F2M(F2M(P[1], P[1]), P[1]), F2M(EB, F2M(F2M(P[3], P[3]), P[3])))
\* ---- the program.  Per half j: U, NINV (1 / norm(tv)), X, then for gx1 - and, if gx1 is not a square, for gx2 -: SN (root of the norm), SA (root of
\*      (a + s) / 2), SB (root of (a - s) / 2, if that of (a + s) / 2 does not exist), SI (1 / 2x); Q.  Then ISO, CLR, NZ (1 / norm(Z)), FIN.
Half1 == <<"U", "NINV", "X", "SN1", "SA1", "SB1", "SI1", "SN2", "SA2", "SB2", "SI2", "Q">>
Prog == Half1 \o Half1 \o <<"ISO", "CLR", "NZ", "FIN", "DONE">>
VARIABLES pc, res, ebase, ei, eacc, sub
vars == <<pc, res, ebase, ei, eacc, sub>>
Cur == Prog[pc]
J == IF pc <= 12 THEN 0 ELSE 1
Nm(s) == <<s, J>>
G(s) == <<s, 2>>
R(n) == res[n]
Piece(i) == Red(OS2IP(SubSeq(JobIn.uniform, i * C.l + 1, (i + 1) * C.l)))
StepU == /\ Cur = "U"
         /\ LET u == <<Piece(2 * J), Piece(2 * J + 1)>>
                zu2 == F2M(Zcoef, F2M(u, u))
            IN res' = (Nm("u") :> u) @@ (Nm("zu2") :> zu2) @@ (Nm("tv") :> F2A(F2M(zu2, zu2), zu2)) @@ res
         /\ pc' = pc + 1 /\ UNCHANGED <<ebase, ei, eacc, sub>>
K == IF Cur \in {"SN1", "SA1", "SB1", "SI1"} THEN 1 ELSE 2
GxK(k) == R(Nm(IF k = 1 THEN "gx1" ELSE "gx2"))
Key(s, k) == Nm(IF k = 1 THEN s \o "1" ELSE s \o "2")
Nsq(k) == LET s == R(Key("sn", k)) IN FM(s, s) = Norm(GxK(k))
HalfSum(k) == FM(FA(GxK(k)[1], R(Key("sn", k))), InvTwo)
HalfDif(k) == FM(FS(GxK(k)[1], R(Key("sn", k))), InvTwo)
SAok(k) == LET x == R(Key("sa", k)) IN FM(x, x) = HalfSum(k)
RootX(k) == IF SAok(k) THEN R(Key("sa", k)) ELSE R(Key("sb", k))
IsExp == Cur \in {"NINV", "SN1", "SA1", "SB1", "SI1", "SN2", "SA2", "SB2", "SI2", "NZ"}
Kind == IF Cur \in {"NINV", "NZ"} THEN "I" ELSE SubSeq(Cur, 1, 2)
Skip == CASE Cur \in {"NINV", "NZ", "SN1"} -> FALSE
          [] Cur \in {"SA1", "SI1"} -> ~Nsq(1)
          [] Cur = "SB1" -> ~Nsq(1) \/ SAok(1)
          [] Cur = "SN2" -> Nsq(1)
          [] Cur \in {"SA2", "SI2"} -> Nsq(1) \/ ~Nsq(2)
          [] Cur = "SB2" -> Nsq(1) \/ ~Nsq(2) \/ SAok(2)
ExpBase == CASE Cur = "NINV" -> Norm(R(Nm("tv"))) [] Cur = "NZ" -> Norm(R(G("acc"))[3])
             [] Kind = "SN" -> Norm(GxK(K)) [] Kind = "SA" -> HalfSum(K) [] Kind = "SB" -> HalfDif(K)
             [] Kind = "SI" -> LET x == RootX(K) IN FA(x, x)
ExpE == IF Cur \in {"NINV", "NZ"} \/ Kind = "SI" THEN C.pm2 ELSE C.sq
ExpName == CASE Cur = "NINV" -> Nm("tvni") [] Cur = "NZ" -> G("zni") [] OTHER -> Nm(IF K = 1 THEN (IF Kind = "SN" THEN "sn1" ELSE IF Kind = "SA" THEN "sa1" ELSE IF Kind = "SB" THEN "sb1" ELSE "si1")
                                                                                       ELSE (IF Kind = "SN" THEN "sn2" ELSE IF Kind = "SA" THEN "sa2" ELSE IF Kind = "SB" THEN "sb2" ELSE "si2"))
ExpSkip == /\ IsExp /\ sub = "idle" /\ Skip = TRUE /\ pc' = pc + 1 /\ UNCHANGED <<res, ebase, ei, eacc, sub>>
ExpStart == /\ IsExp /\ sub = "idle" /\ Skip = FALSE
            /\ ebase' = ExpBase /\ eacc' = One /\ ei' = 12 * C.k - 1 /\ sub' = "exp" /\ UNCHANGED <<pc, res>>
ExpStep == /\ IsExp /\ sub = "exp" /\ ei >= 0
           /\ LET sq == FM(eacc, eacc) IN eacc' = IF BitOfNat(ExpE, ei) = 1 THEN FM(sq, ebase) ELSE sq
           /\ ei' = ei - 1 /\ UNCHANGED <<pc, res, ebase, sub>>
ExpEnd == /\ IsExp /\ sub = "exp" /\ ei < 0
          /\ res' = (ExpName :> eacc) @@ res /\ sub' = "idle" /\ pc' = pc + 1 /\ UNCHANGED <<ebase, ei, eacc>>
StepX == /\ Cur = "X"
         /\ LET tv == R(Nm("tv"))
                tv1 == Scale(Conj(tv), R(Nm("tvni")))
                x1 == IF tv1 = Z2 THEN C2 ELSE F2M(C1, F2A(O2, tv1))
                x2 == F2M(R(Nm("zu2")), x1)
            IN res' = (Nm("x1") :> x1) @@ (Nm("gx1") :> Gx(x1)) @@ (Nm("x2") :> x2) @@ (Nm("gx2") :> Gx(x2)) @@ (Nm("inv_ok") :> (tv1 = Z2 \/ F2M(tv1, tv) = O2)) @@ res
         /\ pc' = pc + 1 /\ UNCHANGED <<ebase, ei, eacc, sub>>
StepQ == /\ Cur = "Q"
         /\ LET k == IF Nsq(1) THEN 1 ELSE 2
                gx == GxK(k)
                x == R(Nm(IF k = 1 THEN "x1" ELSE "x2"))
                xr == RootX(k)
                y0 == <<xr, FM(gx[2], R(Key("si", k)))>>
                y == IF Sgn0(R(Nm("u"))) # Sgn0(y0) THEN F2N(y0) ELSE y0
            IN res' = (Nm("Q") :> <<x, y>>) @@ (Nm("on_curve") :> (F2M(y, y) = Gx(x) /\ gx[2] # Zero)) @@ res
         /\ pc' = pc + 1 /\ UNCHANGED <<ebase, ei, eacc, sub>>
StepIso == /\ Cur = "ISO"
           /\ LET R0 == Iso(R(<<"Q", 0>>))   R1 == Iso(R(<<"Q", 1>>))
              IN res' = (G("S") :> PAdd(R0, R1)) @@ (G("acc") :> Inf) @@ (G("iso_ok") :> (OnE(R0) /\ OnE(R1) /\ R0[3] # Z2 /\ R1[3] # Z2)) @@ res
           /\ pc' = pc + 1 /\ UNCHANGED <<ebase, ei, eacc, sub>>
ClrStart == /\ Cur = "CLR" /\ sub = "idle" /\ ei' = 12 * Len(C.heff) - 1 /\ sub' = "mul" /\ UNCHANGED <<pc, res, ebase, eacc>>
ClrStep == /\ Cur = "CLR" /\ sub = "mul" /\ ei >= 0
           /\ LET dbl == PDbl(R(G("acc"))) IN res' = (G("acc") :> (IF BitOfNat(C.heff, ei) = 1 THEN PAdd(dbl, R(G("S"))) ELSE dbl)) @@ res
           /\ ei' = ei - 1 /\ UNCHANGED <<pc, ebase, eacc, sub>>
ClrEnd == /\ Cur = "CLR" /\ sub = "mul" /\ ei < 0 /\ sub' = "idle" /\ pc' = pc + 1 /\ UNCHANGED <<res, ebase, ei, eacc>>
StepFin == /\ Cur = "FIN"
           /\ LET P == R(G("acc"))   zi == Scale(Conj(P[3]), R(G("zni")))   x3 == F2M(P[1], zi)   y3 == F2M(P[2], zi)
              IN res' = (G("out") :> [identity |-> P[3] = Z2, x0 |-> I2OSP(x3[1], C.n), x1 |-> I2OSP(x3[2], C.n), y0 |-> I2OSP(y3[1], C.n), y1 |-> I2OSP(y3[2], C.n),
                                      sane |-> R(<<"on_curve", 0>>) /\ R(<<"on_curve", 1>>) /\ R(<<"inv_ok", 0>>) /\ R(<<"inv_ok", 1>>) /\ R(G("iso_ok"))
                                               /\ OnE(P) /\ OnE(R(G("S"))) /\ (P[3] = Z2 \/ (F2M(P[3], zi) = O2 /\ F2M(y3, y3) = F2A(F2M(F2M(x3, x3), x3), EB)))]) @@ res
           /\ pc' = pc + 1 /\ UNCHANGED <<ebase, ei, eacc, sub>>
Init == pc = 1 /\ res = <<>> /\ ebase = <<>> /\ ei = -1 /\ eacc = <<>> /\ sub = "idle"
Next == StepU \/ ExpSkip \/ ExpStart \/ ExpStep \/ ExpEnd \/ StepX \/ StepQ \/ StepIso \/ ClrStart \/ ClrStep \/ ClrEnd \/ StepFin
Spec == Init /\ [][Next]_vars
ASSUME TLCSet(1, [done |-> FALSE, ok |-> FALSE, sane |-> FALSE, identity |-> FALSE])
Check == Cur = "DONE" => LET o == R(G("out")) IN
            TLCSet(1, [done |-> TRUE, sane |-> o.sane, x0 |-> o.x0, x1 |-> o.x1, y0 |-> o.y0, y1 |-> o.y1, identity |-> o.identity,
                       ok |-> IF o.identity THEN JobIn.identity
                              ELSE ~JobIn.identity /\ o.x0 = JobIn.x0 /\ o.x1 = JobIn.x1 /\ o.y0 = JobIn.y0 /\ o.y1 = JobIn.y1])
Verdict == JsonSerialize("verdict.json", TLCGet(1))
====
