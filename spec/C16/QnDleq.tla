---- MODULE QnDleq ----
(* DLEQ proofs in the group of squares modulo N (zk/qndleq), toy instance N = 7 * 11 (squares have order 15).
   The verifier recomputes gP = g^Z * gx^-C, hP = h^Z * hx^-C and compares C with the challenge
   Hash(g, h, gx, hx, gP, hP) truncated to `sec` bits.  The hash is an arbitrary function (a constant of the model).
   VerifyAsCoded takes `sec` from the PROOF (as the pinned code does); VerifyFixed takes it from the verifier.  *)
EXTENDS Integers, Sequences, FiniteSets, TLC
N == 77
Units == {x \in 1..(N-1) : (x % 7) # 0 /\ (x % 11) # 0}
Squares == {(x*x) % N : x \in Units}
RECURSIVE Pow(_,_)
Pow(b, e) == IF e = 0 THEN 1 ELSE (b * Pow(b, e - 1)) % N
InvN(a) == CHOOSE i \in Units : ((a*i) % N) = 1
Hash(g, h, gx, hx, gP, hP) == (3*g + 5*h + 7*gx + 11*hx + 13*gP + 17*hP) % 16          \* any function will do; 4 output bits
Trunc(v, sec) == v % (2^sec)
Recompute(g, h, gx, hx, z, c) == <<(Pow(g, z) * InvN(Pow(gx, c))) % N, (Pow(h, z) * InvN(Pow(hx, c))) % N>>
VerifyWith(sec, g, h, gx, hx, z, c) == LET t == Recompute(g, h, gx, hx, z, c) IN c = Trunc(Hash(g, h, gx, hx, t[1], t[2]), sec)
VerifyAsCoded(proof, g, h, gx, hx) == VerifyWith(proof.sec, g, h, gx, hx, proof.z, proof.c)
Prove(sec, x, r, g, h) == LET gx == Pow(g, x)  hx == Pow(h, x)  c == Trunc(Hash(g, h, gx, hx, Pow(g, r), Pow(h, r)), sec)
                          IN [z |-> c*x + r, c |-> c, sec |-> sec]
Complete == \A sec \in {0, 2, 4}, x \in 0..14, r \in 0..20, g, h \in {4, 9, 16} :
              VerifyAsCoded(Prove(sec, x, r, g, h), g, h, Pow(g, x), Pow(h, x))
\* the finding: with the parameter taken from the proof, (Z, C = 0, sec = 0) verifies for EVERY statement, true or false
DegenerateAcceptsEverything == \A g, h, gx, hx \in Squares, z \in 0..3 : VerifyAsCoded([z |-> z, c |-> 0, sec |-> 0], g, h, gx, hx)
ASSUME Complete
ASSUME DegenerateAcceptsEverything          \* documents the pinned-tree defect (known finding C16)
====
