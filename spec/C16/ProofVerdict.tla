---- MODULE ProofVerdict ----
(* What the harness observes and what must hold (the expectations TLC judges the recorded lines with):
   OPRF: outputs equal the server's FullEvaluate, are independent of the blinds and of batching; in the verifiable modes
   Finalize fails whenever any evaluated element, the proof (c or s), the public key, the info or a blinded element differs.
   Proof systems: honest proofs verify; any altered component or context, and every degenerate assembly, is refused.    *)
EXTENDS Integers, Sequences, FiniteSets, TLC
OprfSites == {"none", "eval-element", "eval-swap", "proof-c", "proof-s", "other-key", "other-info", "blinded-element", "eval-identity", "proof-zero", "proof-nil", "zero-blind"}
ProofSites == {"none", "proof-c", "proof-s", "proof-v", "proof-trailing", "statement-a", "statement-b", "statement-c", "statement-d", "statement-length", "statement-nonunit", "statement-negated", "statement-oversize", "context", "userid",
               "zero-challenge", "zero-response", "identity-elements", "false-statement", "prover-parameter", "swapped-proof"}
ExpectedOprf(mode, site) ==
  IF site = "none" THEN "ok"
  ELSE IF site = "zero-blind" THEN "error"            \* every mode: a zero blind fails or still gives the direct evaluation (finalize_ok counts wrong outputs)
  ELSE IF mode = "base" THEN "any"                    \* no verifiability in base mode: nothing is promised about altered evaluations
  ELSE IF site = "other-info" /\ mode # "poprf" THEN "n/a" ELSE "error"
ExpectedProof(site) == IF site = "none" THEN "accept" ELSE "reject"
====
