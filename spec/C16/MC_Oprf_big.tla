---- MODULE MC_Oprf_big ----
EXTENDS Integers
O11 == INSTANCE Oprf WITH Q <- 11
O13 == INSTANCE Oprf WITH Q <- 13
ASSUME O11!BlindIndependent /\ O11!PoprfConsistent /\ O11!DleqComplete /\ O11!SchnorrComplete /\ O11!OtCorrect /\ O11!DleqSoundCore
ASSUME O13!BlindIndependent /\ O13!PoprfConsistent /\ O13!SchnorrComplete /\ O13!OtCorrect
====
