---- MODULE R255Job ----
(* C16 / C13, anchor.  hash_to_ristretto255 (RFC 9380 appendix B with RFC 9496): the 64 bytes of expand_message_xmd(SHA-512) - recomputed by
   ExpanderJobs.tla on the same call - are split in two, each half goes through the one-way map of RFC 9496 section 4.3.4 (MAP with
   SQRT_RATIO_M1, the exponentiation to (p-5)/8 one action per bit), the two points are added with the complete addition law and the sum is
   encoded as section 4.3.2 prescribes; the 32 bytes must be those of group.Ristretto255.HashToElement.  The constants SQRT_M1,
   SQRT_AD_MINUS_ONE, INVSQRT_A_MINUS_D, ONE_MINUS_D_SQ, D_MINUS_ONE_SQ are checked against their defining equations by ASSUME (their signs
   are those of RFC 9496).  job.json: [uniform (64 bytes), enc (32 bytes)]. *)
EXTENDS Integers, Sequences, TLC, Json, Sha512Ops
JobIn == JsonDeserialize("job.json")
B == 4096
Max(a, b) == IF a > b THEN a ELSE b
Min(a, b) == IF a < b THEN a ELSE b
Limb(x, i) == IF i <= Len(x) THEN x[i] ELSE 0
RECURSIVE SumR(_, _, _, _, _), MulC(_, _, _, _, _), AddC(_, _, _, _, _), SubC(_, _, _, _, _)
SumR(x, y, k, i, hi) == IF i > hi THEN 0 ELSE x[i] * y[k - i + 1] + SumR(x, y, k, i + 1, hi)
Col(x, y, k) == SumR(x, y, k, Max(1, k - Len(y) + 1), Min(k, Len(x)))
MulC(x, y, k, c, acc) == IF k > Len(x) + Len(y) THEN acc
                         ELSE LET t == (IF k < Len(x) + Len(y) THEN Col(x, y, k) ELSE 0) + c
                              IN MulC(x, y, k + 1, t \div B, Append(acc, t % B))
Mul(x, y) == IF Len(x) = 0 \/ Len(y) = 0 THEN <<>> ELSE MulC(x, y, 1, 0, <<>>)
AddC(x, y, k, c, acc) == IF k > Max(Len(x), Len(y)) THEN (IF c = 0 THEN acc ELSE Append(acc, c))
   ELSE LET t == Limb(x, k) + Limb(y, k) + c IN AddC(x, y, k + 1, t \div B, Append(acc, t % B))
Add(x, y) == AddC(x, y, 1, 0, <<>>)
SubC(x, y, k, b, acc) == IF k > Max(Len(x), Len(y)) THEN <<acc, b>>
   ELSE LET t == Limb(x, k) - Limb(y, k) - b
        IN IF t < 0 THEN SubC(x, y, k + 1, 1, Append(acc, t + B)) ELSE SubC(x, y, k + 1, 0, Append(acc, t))
Sub(x, y) == SubC(x, y, 1, 0, <<>>)[1]
GE(x, y) == SubC(x, y, 1, 0, <<>>)[2] = 0
RECURSIVE IsZeroSeq(_, _), Rep(_, _, _), FixR(_, _, _, _)
IsZeroSeq(x, i) == IF i > Len(x) THEN TRUE ELSE x[i] = 0 /\ IsZeroSeq(x, i + 1)
Rep(v, n, acc) == IF n = 0 THEN acc ELSE Rep(v, n - 1, Append(acc, v))
FixR(x, k, n, acc) == IF k > n THEN acc ELSE FixR(x, k + 1, n, Append(acc, Limb(x, k)))
\* ---- the two curves.  Bits = D*12 + R;  P as digits;  FoldC = 2^Bits mod p;  A24 = (A - 2) / 4;  N = byte length
Cv(c) == IF c = "x25519"
         THEN [bits |-> 255, d |-> 21, r |-> 3, n |-> 32, nd |-> 22, a24 |-> <<2881, 29>>, foldc |-> <<19>>,
               p |-> Append(<<4077>> \o Rep(4095, 20, <<>>), 7)]                                  \* 2^255 - 19
         ELSE [bits |-> 448, d |-> 37, r |-> 4, n |-> 56, nd |-> 38, a24 |-> <<2217, 9>>,                      \* 39081
               foldc |-> Append(<<1>> \o Rep(0, 17, <<>>), 256),                                   \* 2^224 + 1 : digit 19 = 2^(224-216)
               p |-> Rep(4095, 18, <<>>) \o <<4095 - 256>> \o Rep(4095, 18, <<>>) \o <<15>>]       \* 2^448 - 2^224 - 1
RECURSIVE HiR(_, _, _, _, _)
HiR(x, c, k, n, acc) == IF k > n THEN acc
                        ELSE HiR(x, c, k + 1, n, Append(acc, (Limb(x, c.d + k) \div (2^c.r)) + ((Limb(x, c.d + 1 + k) % (2^c.r)) * (2^(12 - c.r)))))
HiBits(x, c) == HiR(x, c, 1, Max(Len(x) - c.d, 1), <<>>)
RECURSIVE LoR(_, _, _, _)
LoR(x, c, k, acc) == IF k > c.nd THEN acc ELSE LoR(x, c, k + 1, Append(acc, IF k < c.nd THEN Limb(x, k) ELSE Limb(x, c.nd) % (2^c.r)))
LoBits(x, c) == LoR(x, c, 1, <<>>)
RECURSIVE Fold(_, _)
Fold(x, c) == LET hi == HiBits(x, c) IN IF IsZeroSeq(hi, 1) THEN LoBits(x, c) ELSE Fold(Add(LoBits(x, c), Mul(hi, c.foldc)), c)
Red(x, c) == LET y == Fold(x, c) IN FixR(IF GE(y, c.p) THEN Sub(y, c.p) ELSE y, 1, c.nd, <<>>)
FMul(a, b, c) == Red(Mul(a, b), c)
FAdd(a, b, c) == Red(Add(a, b), c)
FSub(a, b, c) == Red(Add(a, Sub(c.p, b)), c)                \* a, b canonical
\* ---- bytes
ByteBit(bs, n) == IF (n \div 8) + 1 > Len(bs) THEN 0 ELSE (bs[(n \div 8) + 1] \div (2^(n % 8))) % 2
RECURSIVE LimbFromBits(_, _, _), B2L(_, _, _, _)
LimbFromBits(bs, k, b) == IF b = 12 THEN 0 ELSE ByteBit(bs, 12 * (k - 1) + b) * (2^b) + LimbFromBits(bs, k, b + 1)
B2L(bs, k, n, acc) == IF k > n THEN acc ELSE B2L(bs, k + 1, n, Append(acc, LimbFromBits(bs, k, 0)))
BytesToLimbs(bs, c) == B2L(bs, 1, c.nd, <<>>)

C25 == Cv("x25519")
FM(a, b) == FMul(a, b, C25)
FA(a, b) == FAdd(a, b, C25)
FS(a, b) == FSub(a, b, C25)
One25 == FixR(<<1>>, 1, 22, <<>>)
Zero25 == FixR(<<0>>, 1, 22, <<>>)
Dcoef == <<2211, 1431, 2579, 1244, 1515, 2743, 472, 1044, 2637, 1792, 2048, 3721, 1913, 1943, 1856, 2252, 3699, 1791, 3627, 1742, 515, 5>>
D2 == <<345, 2863, 1062, 2489, 3030, 1390, 945, 2088, 1178, 3585, 0, 3347, 3827, 3886, 3712, 408, 3303, 3583, 3158, 3485, 1030, 2>>
BaseX == <<1306, 605, 143, 726, 2390, 2860, 1447, 2386, 1888, 716, 3177, 3525, 3542, 799, 1250, 3082, 1022, 1765, 973, 877, 361, 2>>
BaseY == <<1624, 1638, 1638, 1638, 1638, 1638, 1638, 1638, 1638, 1638, 1638, 1638, 1638, 1638, 1638, 1638, 1638, 1638, 1638, 1638, 1638, 6>>
LOrd == <<1005, 3933, 2652, 1585, 2066, 3429, 1948, 2607, 2526, 3567, 20, 0, 0, 0, 0, 0, 0, 0, 0, 0, 0, 1>>
BasePt == <<BaseX, BaseY, One25, FM(BaseX, BaseY)>>
IdPt == <<Zero25, One25, One25, Zero25>>
\* RFC 8032 5.1.4, complete for a = -1: works for doubling as well
PAddE(P, Q) == LET A1 == FM(FS(P[2], P[1]), FS(Q[2], Q[1]))
                   B1 == FM(FA(P[2], P[1]), FA(Q[2], Q[1]))
                   C1 == FM(FM(P[4], D2), Q[4])
                   D1 == FM(FA(P[3], P[3]), Q[3])
                   E == FS(B1, A1)   F == FS(D1, C1)   G == FA(D1, C1)   H == FA(B1, A1)
               IN <<FM(E, F), FM(G, H), FM(F, G), FM(E, H)>>
BitOfNat(x, i) == LET dgt == (i \div 12) + 1 IN IF dgt > Len(x) THEN 0 ELSE (x[dgt] \div (2^(i % 12))) % 2
RECURSIVE ToBytesAcc(_, _, _, _)
ToBytesAcc(x, j, n, acc) == IF j > n THEN acc
                            ELSE LET b0 == 8 * (j - 1)
                                 IN ToBytesAcc(x, j + 1, n, Append(acc, BitOfNat(x,b0) + 2*BitOfNat(x,b0+1) + 4*BitOfNat(x,b0+2) + 8*BitOfNat(x,b0+3)
                                                                + 16*BitOfNat(x,b0+4) + 32*BitOfNat(x,b0+5) + 64*BitOfNat(x,b0+6) + 128*BitOfNat(x,b0+7)))
ToBytes(x, n) == ToBytesAcc(x, 1, n, <<>>)
\* ---- arithmetic modulo the group order: acc -> (2 acc + bit) mod L, bit by bit from the top
Fix22(x) == FixR(x, 1, 22, <<>>)
DblBit(acc, bit) == LET t == Add(Add(acc, acc), <<bit>>) IN Fix22(IF GE(t, LOrd) THEN Sub(t, LOrd) ELSE t)
RECURSIVE BitsDown(_, _, _, _)
BitsDown(acc, v, b, n) == IF b < 0 THEN acc ELSE BitsDown(DblBit(acc, (v \div (2^b)) % 2), v, b - 1, n)
RECURSIVE ModLBytesR(_, _, _), ModLNatR(_, _, _)
ModLBytesR(bs, i, acc) == IF i = 0 THEN acc ELSE ModLBytesR(bs, i - 1, BitsDown(acc, bs[i], 7, 8))          \* little-endian bytes, top first
ModLBytes(bs) == ModLBytesR(bs, Len(bs), Fix22(<<0>>))
ModLNatR(x, i, acc) == IF i = 0 THEN acc ELSE ModLNatR(x, i - 1, BitsDown(acc, x[i], 11, 12))
ModLNat(x) == ModLNatR(x, Len(x), Fix22(<<0>>))

SqrtM1 == <<176, 234, 1866, 434, 1262, 1932, 4068, 2770, 2054, 1073, 1839, 3450, 3579, 2451, 3328, 692, 3851, 3101, 79, 584, 2947, 2>>
SqrtAdMinusOne == <<3611, 1970, 73, 3946, 3735, 3031, 2132, 439, 3596, 2520, 3503, 3359, 501, 3219, 3324, 243, 2220, 2100, 3883, 795, 1897, 3>>
InvSqrtAMinusD == <<234, 1492, 2688, 4058, 2504, 3049, 370, 1444, 1559, 753, 157, 3460, 3585, 2335, 635, 364, 3234, 2815, 1487, 2192, 2156, 7>>
OneMinusDSq == <<374, 1532, 404, 156, 636, 254, 3637, 3285, 312, 2074, 1068, 3582, 3696, 3547, 1195, 2457, 215, 2878, 2226, 1834, 656, 0>>
DMinusOneSq == <<3360, 3796, 2628, 1450, 429, 2451, 3609, 2817, 2604, 2532, 3026, 1262, 667, 757, 3283, 1229, 577, 1730, 2806, 2871, 2408, 5>>
FNeg(a) == FS(Zero25, a)
MinusOne == FNeg(One25)
ASSUME /\ FM(SqrtM1, SqrtM1) = MinusOne
       /\ FM(SqrtAdMinusOne, SqrtAdMinusOne) = FS(FNeg(Dcoef), One25)
       /\ FM(FM(InvSqrtAMinusD, InvSqrtAMinusD), FS(MinusOne, Dcoef)) = One25
       /\ OneMinusDSq = FS(One25, FM(Dcoef, Dcoef))
       /\ DMinusOneSq = FM(FS(Dcoef, One25), FS(Dcoef, One25))
IsNeg(a) == BitOfNat(a, 0) = 1
Abs(a) == IF IsNeg(a) THEN FNeg(a) ELSE a
Exp58 == LET pm5 == Sub(C25.p, <<5>>) IN [j \in 0..251 |-> BitOfNat(pm5, j + 3)]           \* bits of (p - 5) / 8
\* SQRT_RATIO_M1(u, v) given e = (u v^7)^((p-5)/8)
SqrtRatio(u, v, e) == LET v3 == FM(FM(v, v), v)
                          r0 == FM(FM(u, v3), e)
                          check == FM(v, FM(r0, r0))
                          correct == check = u
                          flipped == check = FNeg(u)
                          flippedi == check = FNeg(FM(u, SqrtM1))
                          r1 == IF flipped \/ flippedi THEN FM(SqrtM1, r0) ELSE r0
                      IN <<correct \/ flipped, Abs(r1)>>
V7(u, v) == LET v2 == FM(v, v)   v4 == FM(v2, v2) IN FM(u, FM(FM(v4, v2), v))
Half(j) == LET bs == SubSeq(JobIn.uniform, 32 * j + 1, 32 * j + 32) IN BytesToLimbs([k \in 1..32 |-> IF k = 32 THEN bs[32] % 128 ELSE bs[k]], C25)
\* ---- the program
Prog == <<"MAP", "MAP", "ENC", "DONE">>
VARIABLES pc, res, ebase, ei, eacc, sub, uv
vars == <<pc, res, ebase, ei, eacc, sub, uv>>
Cur == Prog[pc]
Start == /\ Cur \in {"MAP", "ENC"} /\ sub = "idle"
         /\ LET u == IF Cur = "MAP"
                     THEN LET t == Red(Half(pc - 1), C25)   r == FM(SqrtM1, FM(t, t)) IN FM(FA(r, One25), OneMinusDSq)
                     ELSE One25
                v == IF Cur = "MAP"
                     THEN LET t == Red(Half(pc - 1), C25)   r == FM(SqrtM1, FM(t, t)) IN FM(FS(MinusOne, FM(r, Dcoef)), FA(r, Dcoef))
                     ELSE LET P == PAddE(res[1], res[2])
                              u1 == FM(FA(P[3], P[2]), FS(P[3], P[2]))
                              u2 == FM(P[1], P[2])
                          IN FM(u1, FM(u2, u2))
            IN uv' = <<u, v>> /\ ebase' = V7(u, v) /\ eacc' = One25 /\ ei' = 251 /\ sub' = "exp"
         /\ UNCHANGED <<pc, res>>
Step == /\ sub = "exp" /\ ei >= 0
        /\ LET sq == FM(eacc, eacc) IN eacc' = IF Exp58[ei] = 1 THEN FM(sq, ebase) ELSE sq
        /\ ei' = ei - 1 /\ UNCHANGED <<pc, res, ebase, sub, uv>>
EndMap == /\ Cur = "MAP" /\ sub = "exp" /\ ei < 0
          /\ LET t == Red(Half(pc - 1), C25)
                 r == FM(SqrtM1, FM(t, t))
                 v == uv[2]
                 sr == SqrtRatio(uv[1], v, eacc)
                 sprime == FNeg(Abs(FM(sr[2], t)))
                 s == IF sr[1] THEN sr[2] ELSE sprime
                 c == IF sr[1] THEN MinusOne ELSE r
                 N == FS(FM(FM(c, FS(r, One25)), DMinusOneSq), v)
                 w0 == FM(FA(s, s), v)
                 w1 == FM(N, SqrtAdMinusOne)
                 w2 == FS(One25, FM(s, s))
                 w3 == FA(One25, FM(s, s))
             IN res' = res \o << <<FM(w0, w3), FM(w2, w1), FM(w1, w3), FM(w0, w2)>> >>
          /\ sub' = "idle" /\ pc' = pc + 1 /\ UNCHANGED <<ebase, ei, eacc, uv>>
EndEnc == /\ Cur = "ENC" /\ sub = "exp" /\ ei < 0
          /\ LET P == PAddE(res[1], res[2])
                 x0 == P[1]   y0 == P[2]   z0 == P[3]   t0 == P[4]
                 u1 == FM(FA(z0, y0), FS(z0, y0))
                 u2 == FM(x0, y0)
                 invsqrt == SqrtRatio(uv[1], uv[2], eacc)[2]
                 den1 == FM(invsqrt, u1)
                 den2 == FM(invsqrt, u2)
                 zinv == FM(FM(den1, den2), t0)
                 ix0 == FM(x0, SqrtM1)
                 iy0 == FM(y0, SqrtM1)
                 ench == FM(den1, InvSqrtAMinusD)
                 rotate == IsNeg(FM(t0, zinv))
                 x == IF rotate THEN iy0 ELSE x0
                 y1 == IF rotate THEN ix0 ELSE y0
                 deninv == IF rotate THEN ench ELSE den2
                 y == IF IsNeg(FM(x, zinv)) THEN FNeg(y1) ELSE y1
                 s == Abs(FM(deninv, FS(z0, y)))
             IN res' = res \o <<ToBytes(s, 32)>>
          /\ sub' = "idle" /\ pc' = pc + 1 /\ UNCHANGED <<ebase, ei, eacc, uv>>
Init == pc = 1 /\ res = <<>> /\ ebase = <<>> /\ ei = -1 /\ eacc = <<>> /\ sub = "idle" /\ uv = <<>>
Next == Start \/ Step \/ EndMap \/ EndEnc
Spec == Init /\ [][Next]_vars
ASSUME TLCSet(1, [done |-> FALSE, ok |-> FALSE, enc |-> <<>>])
Check == Cur = "DONE" => TLCSet(1, [done |-> TRUE, ok |-> res[3] = JobIn.enc, enc |-> res[3]])
Verdict == JsonSerialize("verdict.json", TLCGet(1))
====
