---- MODULE MC_Oprf ----
EXTENDS Integers
O7 == INSTANCE Oprf WITH Q <- 7
ASSUME O7!BlindIndependent /\ O7!PoprfConsistent /\ O7!DleqComplete /\ O7!SchnorrComplete /\ O7!OtCorrect
ASSUME O7!DleqSoundCore
====
