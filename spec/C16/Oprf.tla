---- MODULE Oprf ----
(* C16.  OPRF / VOPRF / POPRF (RFC 9497), DLEQ and Schnorr proofs, DLEQ in the squares modulo N, and the
   "simplest OT", over a SYMBOLIC prime-order group: an element is its discrete logarithm modulo a toy prime Q,
   hashing to the group is an arbitrary injective table, so every algebraic identity the protocols rely on can be
   checked by TLC for ALL keys, blinds and inputs of the toy group.                                        *)
EXTENDS Integers, Sequences, FiniteSets, TLC
CONSTANT Q                       \* toy group order (prime)
Zq == 0..(Q-1)
Nz == 1..(Q-1)
Inv(a) == CHOOSE i \in Nz : ((a*i) % Q) = 1
\* ---- OPRF algebra: H(x) = h, Blind = r*h, Evaluate = k*B, Unblind = r^-1 * Z
Unblinded(k, r, h) == (Inv(r) * ((k * ((r*h) % Q)) % Q)) % Q
BlindIndependent == \A k \in Nz, r1, r2 \in Nz, h \in Nz : Unblinded(k, r1, h) = Unblinded(k, r2, h) /\ Unblinded(k, r1, h) = ((k*h) % Q)
\* POPRF: tweaked key t = k + m (m = H(info)); server evaluates with t^-1; client output element = r^-1 * Z; full evaluation = t^-1 * h
PoprfConsistent == \A k \in Nz, m \in Zq, r \in Nz, h \in Nz :
   LET t == (k + m) % Q IN t # 0 => ((Inv(r) * ((Inv(t) * ((r*h) % Q)) % Q)) % Q) = ((Inv(t) * h) % Q)
\* ---- DLEQ: statement (A, B = kA, C, D = kC); proof commitment v: t2 = vA, t3 = vC; response s = v - c*k; verifier recomputes
\*      t2' = s*A + c*B, t3' = s*C + c*D and compares the challenge over (statement, t2', t3')
DleqComplete == \A k, v, c \in Zq, a, cc \in Nz :
   LET s == (v - c*k + Q*Q) % Q IN ((s*a + c*((k*a) % Q)) % Q) = ((v*a) % Q) /\ ((s*cc + c*((k*cc) % Q)) % Q) = ((v*cc) % Q)
\* soundness of the algebra: for a FALSE statement (D # kC) a fixed (c, s) reproduces both commitments for at most ONE challenge value,
\* so a verifier that binds the challenge to the commitments (Fiat-Shamir) accepts with probability 1/Q only
DleqSoundCore == \A k, k2 \in Nz, a, cc \in Nz, t2, t3 \in Zq : k # k2 =>
   Cardinality({c \in Zq : \E s \in Zq : ((s*a + c*((k*a) % Q)) % Q) = t2 /\ ((s*cc + c*((k2*cc) % Q)) % Q) = t3}) <= 1
\* ---- Schnorr (zk/dl): V = v*G, r = v - k*c ; verify V = r*G + c*kG
SchnorrComplete == \A k, v, c \in Zq, g \in Nz : LET r == (v - k*c + Q*Q) % Q IN ((r*g + c*((k*g) % Q)) % Q) = ((v*g) % Q)
\* ---- simplest OT: sender a, A = aG; receiver b, B = bG + choice*A; keys k0 = H(a*B), k1 = H(a*(B - A)); receiver key H(b*A)
OtCorrect == \A a, b \in Nz, g \in Nz, ch \in {0, 1} :
   LET A == (a*g) % Q   B == (b*g + ch*A) % Q
       k0 == (a*B) % Q   k1 == (a*((B - A + Q) % Q)) % Q   kr == (b*A) % Q
   IN (IF ch = 0 THEN kr = k0 ELSE kr = k1) /\ (IF ch = 0 THEN kr # k1 ELSE kr # k0)

====
