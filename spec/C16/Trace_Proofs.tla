---- MODULE Trace_Proofs ----
EXTENDS Integers, Sequences, TLC, Json
VARIABLES l, bad
PV == INSTANCE ProofVerdict
OkOprf(r) == /\ r.site \in PV!OprfSites /\ r.total > 0 /\ r.panics = 0
             /\ CASE PV!ExpectedOprf(r.mode, r.site) = "ok" -> r.finalize_ok = r.total /\ r.equals_full = r.total /\ r.blind_independent /\ r.batch_consistent /\ r.server_verify_ok
                  [] PV!ExpectedOprf(r.mode, r.site) = "error" -> r.finalize_ok = 0
                  [] OTHER -> TRUE
OkProof(r) == /\ r.site \in PV!ProofSites /\ r.total > 0 /\ r.panics = 0
              /\ IF PV!ExpectedProof(r.site) = "accept" THEN r.accepted = r.total ELSE r.accepted = 0
OkOT(r) == r.total > 0 /\ r.panics = 0 /\ r.got_chosen = r.total /\ r.other_decrypts = 0
OkLine(r) == CASE r.ev = "oprf" -> OkOprf(r) [] r.ev = "proof" -> OkProof(r) [] r.ev = "ot" -> OkOT(r) [] OTHER -> FALSE
INSTANCE LinesTrace WITH Ok <- OkLine
ASSUME TLCSet(1, 0) /\ TLCSet(2, {}) /\ TLCSet(3, ndJsonDeserialize("trace.ndjson"))
====
