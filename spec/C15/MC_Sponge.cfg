SPECIFICATION Spec
CONSTANTS Rate = 3
 WSizes = {0, 1, 2, 3, 4, 7}
 RSizes = {0, 1, 2, 3, 4}
 MaxAbs = 8
 MaxSq = 7
 H = {0, 1}
INVARIANTS MatchesDefinition BufferBound
CHECK_DEADLOCK FALSE
