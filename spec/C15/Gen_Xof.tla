---- MODULE Gen_Xof ----
(* Call schedules at REAL sizes for the chunking/cloning/resetting part of C15: TLC -simulate walks the
   XofMachine actions with write/read sizes at the block and chunk boundaries of the primitive family. *)
EXTENDS Integers, Sequences, FiniteSets, TLC, Json, SequencesExt
CONSTANTS Fam, D
WSizes == IF Fam = "sponge" THEN {0, 1, 7, 71, 72, 73, 103, 104, 105, 135, 136, 137, 143, 144, 145, 167, 168, 169, 272, 336, 500}
          ELSE {0, 1, 167, 168, 169, 8191, 8192, 8193, 16383, 16384, 16385, 24577, 32767, 32769, 40000, 65537}
RSizes == IF Fam = "sponge" THEN {0, 8, 9, 32, 64, 135, 136, 137, 167, 168, 169, 200, 337}
          ELSE {0, 8, 32, 167, 168, 169, 400}
H == {0, 1, 2}
MaxAbs == IF Fam = "sponge" THEN 1200 ELSE 90000
MaxSq == 1000
VARIABLES st, last, hist
INSTANCE XofMachine
GInit == Init /\ hist = <<>>
GNext == Len(hist) < D /\ Next /\ hist' = Append(hist, last')
GSpec == GInit /\ [][GNext]_<<st, last, hist>>
ASSUME TLCSet(1, {})
Collect == (Len(hist) = D) => TLCSet(1, TLCGet(1) \cup {hist})
Post == JsonSerialize("schedules.json", SetToSeq(TLCGet(1)))
====
