SPECIFICATION Spec
CONSTRAINT HighWater
POSTCONDITION Verdict
CHECK_DEADLOCK FALSE
