---- MODULE AsconJobs ----
(* Executable Ascon v1.2 AEAD (Ascon-128, Ascon-128a, Ascon-80pq) as a job machine.  The 320-bit state is
   five 64-bit words, each four 16-bit limbs (l1 least significant; RotL from KeccakOps); bytes are
   big-endian within a word.  A job is compiled (constant level) into a list of steps
   [mask: 40 bytes XORed into the state, emit: ciphertext bytes taken after the XOR, rounds: p^rounds],
   and each permutation round is one action.  asconjobs.json: [mode, key, nonce, ad, pt, want = C || T]. *)
EXTENDS KeccakOps, TLC, Json
AJobs == JsonDeserialize("asconjobs.json")
RateOf(m) == IF m = "128a" THEN 16 ELSE 8
PbOf(m) == IF m = "128a" THEN 8 ELSE 6
IVOf(m) == IF m = "128" THEN <<128, 64, 12, 6, 0, 0, 0, 0>>          \* k || r || a || b || 0^(160-k)
           ELSE IF m = "128a" THEN <<128, 128, 12, 8, 0, 0, 0, 0>>
           ELSE <<160, 64, 12, 6>>
RECURSIVE Zeros(_)
Zeros(n) == IF n <= 0 THEN <<>> ELSE <<0>> \o Zeros(n - 1)
Pad(bs, rate) == bs \o <<128>> \o Zeros(rate - 1 - (Len(bs) % rate))     \* 10* to a multiple of rate
RECURSIVE XorSeqAcc(_,_,_,_)
XorSeqAcc(a, b, i, acc) == IF i > Len(a) THEN acc ELSE XorSeqAcc(a, b, i + 1, Append(acc, a[i] ^^ b[i]))
XorSeq(a, b) == XorSeqAcc(a, b, 1, <<>>)
Mask(pre, bs) == Zeros(pre) \o bs \o Zeros(40 - pre - Len(bs))
RECURSIVE AdSteps(_,_,_,_)
AdSteps(p, rate, pb, i) == IF i * rate >= Len(p) THEN <<>>
                           ELSE <<[mask |-> Mask(0, SubSeq(p, i*rate + 1, (i+1)*rate)), emit |-> 0, rounds |-> pb]>> \o AdSteps(p, rate, pb, i + 1)
RECURSIVE PtSteps(_,_,_,_,_)
PtSteps(p, ptlen, rate, pb, i) ==        \* p = padded plaintext; the last block is not followed by a permutation
  IF (i + 1) * rate >= Len(p)
  THEN <<[mask |-> Mask(0, SubSeq(p, i*rate + 1, Len(p))), emit |-> ptlen - i*rate, rounds |-> 0]>>
  ELSE <<[mask |-> Mask(0, SubSeq(p, i*rate + 1, (i+1)*rate)), emit |-> rate, rounds |-> pb]>> \o PtSteps(p, ptlen, rate, pb, i + 1)
Steps(j) == LET rate == RateOf(j.mode)  pb == PbOf(j.mode)  kl == Len(j.key) IN
     <<[mask |-> Zeros(40), emit |-> 0, rounds |-> 12]>>
  \o <<[mask |-> Mask(40 - kl, j.key), emit |-> 0, rounds |-> 0]>>
  \o (IF Len(j.ad) > 0 THEN AdSteps(Pad(j.ad, rate), rate, pb, 0) ELSE <<>>)
  \o <<[mask |-> Mask(39, <<1>>), emit |-> 0, rounds |-> 0]>>
  \o PtSteps(Pad(j.pt, rate), Len(j.pt), rate, pb, 0)
  \o <<[mask |-> Mask(rate, j.key), emit |-> 0, rounds |-> 12]>>
InitBytes(j) == IVOf(j.mode) \o j.key \o j.nonce
\* ---- state <-> bytes (big-endian words)
WordFromBytes(b, o) == << b[o+8] + 256*b[o+7], b[o+6] + 256*b[o+5], b[o+4] + 256*b[o+3], b[o+2] + 256*b[o+1] >>
FromBytes(b) == [i \in 0..4 |-> WordFromBytes(b, 8*i)]
WordBytes(w) == << w[4] \div 256, w[4] % 256, w[3] \div 256, w[3] % 256, w[2] \div 256, w[2] % 256, w[1] \div 256, w[1] % 256 >>
ToBytes(S) == WordBytes(S[0]) \o WordBytes(S[1]) \o WordBytes(S[2]) \o WordBytes(S[3]) \o WordBytes(S[4])
\* ---- one round of the permutation; c = round constant byte
Ror(x, n) == RotL(x, 64 - n)
Round(S, c) ==
  LET x2c == XorL(S[2], <<c, 0, 0, 0>>)
      a0 == XorL(S[0], S[4])   a4 == XorL(S[4], S[3])   a2 == XorL(x2c, S[1])   a1 == S[1]   a3 == S[3]
      t0 == AndL(NotL(a0), a1)  t1 == AndL(NotL(a1), a2)  t2 == AndL(NotL(a2), a3)  t3 == AndL(NotL(a3), a4)  t4 == AndL(NotL(a4), a0)
      b0 == XorL(a0, t1)  b1 == XorL(a1, t2)  b2 == XorL(a2, t3)  b3 == XorL(a3, t4)  b4 == XorL(a4, t0)
      c1 == XorL(b1, b0)  c0 == XorL(b0, b4)  c3 == XorL(b3, b2)  c2 == NotL(b2)  c4 == b4
  IN [i \in 0..4 |-> CASE i = 0 -> XorL(c0, XorL(Ror(c0, 19), Ror(c0, 28)))
                       [] i = 1 -> XorL(c1, XorL(Ror(c1, 61), Ror(c1, 39)))
                       [] i = 2 -> XorL(c2, XorL(Ror(c2, 1), Ror(c2, 6)))
                       [] i = 3 -> XorL(c3, XorL(Ror(c3, 10), Ror(c3, 17)))
                       [] OTHER -> XorL(c4, XorL(Ror(c4, 7), Ror(c4, 41)))]
RoundConst(k) == (240 - 16*k) + k            \* 0xf0, 0xe1, ..., 0x4b for k = 0..11; p^n uses the LAST n
VARIABLES S, pc, sp, rleft, out, bad
vars == <<S, pc, sp, rleft, out, bad>>
J == AJobs[pc]
Done == pc > Len(AJobs)
StepXor == /\ ~Done /\ rleft = 0 /\ sp <= Len(Steps(J))
           /\ LET st == Steps(J)[sp]
                  b == XorSeq(ToBytes(S), st.mask)
              IN /\ S' = FromBytes(b) /\ out' = out \o SubSeq(b, 1, st.emit) /\ rleft' = st.rounds /\ sp' = sp + 1
           /\ UNCHANGED <<pc, bad>>
StepRound == /\ ~Done /\ rleft > 0
             /\ S' = Round(S, RoundConst(12 - rleft)) /\ rleft' = rleft - 1 /\ UNCHANGED <<pc, sp, out, bad>>
Finish == /\ ~Done /\ rleft = 0 /\ sp > Len(Steps(J))
          /\ LET sb == ToBytes(S)
                 kl == Len(J.key)
                 tag == XorSeq(SubSeq(sb, 25, 40), SubSeq(J.key, kl - 15, kl))
             IN bad' = IF out \o tag = J.want THEN bad ELSE bad \cup {pc}
          /\ pc' = pc + 1 /\ sp' = 1 /\ out' = <<>> /\ rleft' = 0
          /\ S' = IF pc + 1 > Len(AJobs) THEN S ELSE FromBytes(InitBytes(AJobs[pc + 1]))
Init == /\ pc = 1 /\ sp = 1 /\ rleft = 0 /\ out = <<>> /\ bad = {}
        /\ S = IF Len(AJobs) = 0 THEN [i \in 0..4 |-> ZeroLane] ELSE FromBytes(InitBytes(AJobs[1]))
Next == StepXor \/ StepRound \/ Finish
Spec == Init /\ [][Next]_vars
ASSUME TLCSet(1, 0) /\ TLCSet(2, {})
HighWater == IF pc > TLCGet(1) THEN TLCSet(1, pc) /\ TLCSet(2, bad) ELSE TRUE
Verdict == JsonSerialize("verdict.json", [consumed |-> TLCGet(1) - 1, total |-> Len(AJobs), bad |-> TLCGet(2)])
====
