SPECIFICATION Spec
CONSTANTS WSizes = {0, 1, 3}
 RSizes = {0, 2, 3}
 H = {0, 1}
 MaxAbs = 6
 MaxSq = 6
INVARIANT TypeOK
PROPERTY ReadsContiguous
CHECK_DEADLOCK FALSE
