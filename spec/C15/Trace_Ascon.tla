---- MODULE Trace_Ascon ----
(* Behavioural part of the Ascon clause of C15 (the byte-exact part is AsconJobs.tla):
   "roundtrip": Open inverts Seal, also appended to a non-empty destination and with exact in-place overlap,
                and those variants produce the same ciphertext bytes;
   "tamper":    emitted by the driver ONLY for an altered (key, nonce, ad, ciphertext, tag) that was accepted or
                released bytes - never allowed;  "tamper-sweep" records how many single-bit alterations were tried. *)
EXTENDS Integers, Sequences, TLC, Json
VARIABLES l, bad
OkLine(r) == CASE r.ev = "roundtrip" -> r.round_ok /\ r.same_ct /\ r.prefix_kept /\ r.opened
               [] r.ev = "tamper" -> ~r.opened /\ ~r.released
               [] r.ev = "tamper-sweep" -> r.bit >= 0
               [] OTHER -> FALSE
INSTANCE LinesTrace WITH Ok <- OkLine
ASSUME TLCSet(1, 0) /\ TLCSet(2, {}) /\ TLCSet(3, ndJsonDeserialize("trace.ndjson"))
====
