SPECIFICATION Spec
CONSTANTS Rate = 4
 WSizes = {0, 1, 3, 4, 5, 9}
 RSizes = {0, 1, 3, 4, 5}
 MaxAbs = 13
 MaxSq = 9
 H = {0, 1}
INVARIANTS MatchesDefinition BufferBound
CHECK_DEADLOCK FALSE
