SPECIFICATION GSpec
CONSTANTS Fam = "sponge"
 D = 9
INVARIANT Collect
POSTCONDITION Post
CHECK_DEADLOCK FALSE
