SPECIFICATION GSpec
CONSTANTS Fam = "k12"
 D = 8
INVARIANT Collect
POSTCONDITION Post
CHECK_DEADLOCK FALSE
