---- MODULE SpongeImpl ----
(* C15, implementation shape of internal/sha3/sha3.go with a SYMBOLIC permutation and scaled rate:
   cells are message byte indices or padding markers; the sponge state is the list of blocks absorbed so
   far (each absorption is followed by one permutation).  Write transcribes the fast path / slow path
   loop, Read transcribes padAndPermute and the squeeze loop.  Checked against the FIPS 202 definition
   Z = Squeeze(Absorb(pad10*1(M || ds))) for EVERY way of splitting the input into writes and the output
   into reads, with Clone and Reset interleaved.                                                    *)
EXTENDS Integers, Sequences, FiniteSets, TLC
CONSTANTS Rate, WSizes, RSizes, MaxAbs, MaxSq, H
VARIABLES d,      \* handle -> [live, a (blocks absorbed), buf (pending cells), dir, nsq (permutes while squeezing), bufo, absorbed, squeezed]
          obs     \* last observation: sequence of <<blocks, nsq, offset>> output cell ids
Fresh == [live |-> TRUE, a |-> <<>>, buf |-> <<>>, dir |-> "absorb", nsq |-> 0, bufo |-> 0, absorbed |-> 0, squeezed |-> 0]
Dead == [Fresh EXCEPT !.live = FALSE]
Init == d = [h \in H |-> IF h = 0 THEN Fresh ELSE Dead] /\ obs = <<>>
Cells(from, n) == [i \in 1..n |-> from + i - 1]          \* message byte indices from .. from+n-1
RECURSIVE WriteLoop(_,_,_,_)
WriteLoop(a, buf, next, rem) ==
  IF rem = 0 THEN <<a, buf>>
  ELSE IF Len(buf) = 0 /\ rem >= Rate
       THEN WriteLoop(Append(a, Cells(next, Rate)), buf, next + Rate, rem - Rate)               \* fast path
       ELSE LET todo == IF Rate - Len(buf) > rem THEN rem ELSE Rate - Len(buf)
                nb == buf \o Cells(next, todo)
            IN IF Len(nb) = Rate THEN WriteLoop(Append(a, nb), <<>>, next + todo, rem - todo)   \* permute()
               ELSE WriteLoop(a, nb, next + todo, rem - todo)
Write(h, n) == /\ d[h].live /\ d[h].dir = "absorb" /\ d[h].absorbed + n <= MaxAbs
               /\ LET r == WriteLoop(d[h].a, d[h].buf, d[h].absorbed, n)
                  IN d' = [d EXCEPT ![h].a = r[1], ![h].buf = r[2], ![h].absorbed = @ + n]
               /\ obs' = <<>>
PadBlock(buf) == LET z == Rate - Len(buf) - 1      \* dsbyte, zeros, final bit merged into the last cell
                 IN IF z = 0 THEN Append(buf, "ds^80")
                    ELSE Append(buf, "ds") \o [i \in 1..(z-1) |-> "00"] \o <<"80">>
RECURSIVE ReadLoop(_,_,_,_,_)
ReadLoop(a, nsq, bufo, n, acc) ==
  IF n = 0 THEN <<nsq, bufo, acc>>
  ELSE LET acc2 == Append(acc, <<a, nsq, bufo>>)
       IN IF bufo + 1 = Rate THEN ReadLoop(a, nsq + 1, 0, n - 1, acc2)       \* squeezed dry: permute()
          ELSE ReadLoop(a, nsq, bufo + 1, n - 1, acc2)
Read(h, n) == /\ d[h].live /\ d[h].squeezed + n <= MaxSq
              /\ LET a1 == IF d[h].dir = "absorb" THEN Append(d[h].a, PadBlock(d[h].buf)) ELSE d[h].a
                     r == ReadLoop(a1, d[h].nsq, d[h].bufo, n, <<>>)
                 IN /\ d' = [d EXCEPT ![h].a = a1, ![h].buf = <<>>, ![h].dir = "squeeze", ![h].nsq = r[1], ![h].bufo = r[2], ![h].squeezed = @ + n]
                    /\ obs' = <<h, d[h].absorbed, d[h].squeezed, r[3]>>
Clone(h, g) == d[h].live /\ h # g /\ d' = [d EXCEPT ![g] = d[h]] /\ obs' = <<>>
Reset(h) == d[h].live /\ d' = [d EXCEPT ![h] = Fresh] /\ obs' = <<>>
Next == \/ \E h \in H, n \in WSizes : Write(h, n)
        \/ \E h \in H, n \in RSizes : Read(h, n)
        \/ \E h, g \in H : Clone(h, g)
        \/ \E h \in H : Reset(h)
Spec == Init /\ [][Next]_<<d, obs>>
\* ---- FIPS 202 definition for a message of length L (cells 0..L-1), independent of any chunking
RECURSIVE Chop(_,_)
Chop(s, acc) == IF Len(s) = 0 THEN acc ELSE Chop(SubSeq(s, Rate + 1, Len(s)), Append(acc, SubSeq(s, 1, Rate)))
DefBlocks(L) == LET full == L \div Rate
                    tail == Cells(full * Rate, L - full * Rate)
                IN Chop(Cells(0, full * Rate), <<>>) \o <<PadBlock(tail)>>
DefOut(L, j) == <<DefBlocks(L), j \div Rate, j % Rate>>          \* j-th output byte (0-based)
MatchesDefinition ==
  obs # <<>> => LET h == obs[1]  L == obs[2]  p == obs[3]  o == obs[4]
                IN \A i \in 1..Len(o) : o[i] = DefOut(L, p + i - 1)
BufferBound == \A h \in H : Len(d[h].buf) < Rate          \* "at least one byte of space" that padAndPermute relies on
====
