---- MODULE ExpanderJobs ----
(* C15.  RFC 9380 section 5.3 expand_message_xmd (SHA-256, SHA-384, SHA-512) and expand_message_xof (SHAKE128, SHAKE256) as an executable
   job machine: jobs.json is a sequence of [kind, k, dst, msg, n, want].  For every job TLC builds DST_prime (hashing an over-long DST with the
   "H2C-OVERSIZE-DST-" prefix first), then for xmd the chain b_0, b_1, b_i = H(b_0 xor b_(i-1) || i || DST_prime), for xof the single
   absorb / squeeze of msg || I2OSP(len, 2) || DST_prime, and compares the first n bytes with `want`.  The hashes are Sha256Ops / Sha512Ops /
   KeccakOps, one action per round resp. three per Keccak round.  `bad` collects the jobs whose `want` is not the RFC's value. *)
EXTENDS Sha512Ops, Sha256Ops, TLC, Json
Jobs == JsonDeserialize("jobs.json")
LongPrefix == <<72, 50, 67, 45, 79, 86, 69, 82, 83, 73, 90, 69, 45, 68, 83, 84, 45>>          \* "H2C-OVERSIZE-DST-"
VARIABLES pc, bad, stage, dst, b0, bprev, out, idx,          \* job-level: stage in {"dst", "b0", "bi", "x"}
          hs, st, ws, t, blk,                                 \* SHA-2 engine
          A, r, ph, kblk, kacc                                \* Keccak engine
vars == <<pc, bad, stage, dst, b0, bprev, out, idx, hs, st, ws, t, blk, A, r, ph, kblk, kacc>>
J == Jobs[pc]
Done == pc > Len(Jobs)
IsXmd == J.kind \in {"xmd-sha256", "xmd-sha384", "xmd-sha512"}
BLen == CASE J.kind = "xmd-sha256" -> 32 [] J.kind = "xmd-sha384" -> 48 [] J.kind = "xmd-sha512" -> 64 [] OTHER -> 0
SLen == IF J.kind = "xmd-sha256" THEN 64 ELSE 128                                             \* input block size of the hash
Ell == (J.n + BLen - 1) \div BLen
Rate == IF J.kind = "xof-shake128" THEN 168 ELSE 136
I2(n) == <<n \div 256, n % 256>>
DstPrime == dst \o <<Len(dst)>>
FirstStage == IF Len(J.dst) > 255 THEN "dst" ELSE IF IsXmd THEN "b0" ELSE "x"
\* what is hashed in the current stage
HashIn == CASE stage = "dst" -> LongPrefix \o J.dst
            [] stage = "b0" -> [i \in 1..SLen |-> 0] \o J.msg \o I2(J.n) \o <<0>> \o DstPrime
            [] stage = "bi" -> (IF idx = 1 THEN b0 ELSE [i \in 1..BLen |-> b0[i] ^^ bprev[i]]) \o <<idx>> \o DstPrime
            [] stage = "x" -> J.msg \o I2(J.n) \o DstPrime
XofOutLen == IF stage = "dst" THEN (2 * J.k + 7) \div 8 ELSE J.n
Sha2Vars == <<hs, st, ws, t, blk>>
KVars == <<A, r, ph, kblk, kacc>>
IV == IF J.kind = "xmd-sha256" THEN H256 ELSE IF J.kind = "xmd-sha384" THEN H384 ELSE H512
NextJob(o) == /\ bad' = IF o = J.want THEN bad ELSE bad \cup {pc}
              /\ pc' = pc + 1 /\ out' = <<>> /\ idx' = 0 /\ b0' = <<>> /\ bprev' = <<>>
              /\ IF pc + 1 > Len(Jobs) THEN stage' = "end" /\ dst' = <<>>
                 ELSE LET n == Jobs[pc + 1] IN dst' = (IF Len(n.dst) > 255 THEN <<>> ELSE n.dst)
                                              /\ stage' = (IF Len(n.dst) > 255 THEN "dst" ELSE IF n.kind \in {"xmd-sha256", "xmd-sha384", "xmd-sha512"} THEN "b0" ELSE "x")
\* ---- what happens when a hash value d (already truncated to the digest length) is available
Finish(d) ==
  CASE stage = "dst" -> dst' = d /\ stage' = (IF IsXmd THEN "b0" ELSE "x") /\ UNCHANGED <<pc, bad, b0, bprev, out, idx>>
    [] stage = "b0" -> b0' = d /\ stage' = "bi" /\ idx' = 1 /\ UNCHANGED <<pc, bad, dst, bprev, out>>
    [] stage = "bi" -> IF idx < Ell THEN bprev' = d /\ out' = out \o d /\ idx' = idx + 1 /\ UNCHANGED <<pc, bad, stage, dst, b0>>
                       ELSE LET o == SubSeq(out \o d, 1, J.n) IN NextJob(o)
    [] stage = "x" -> NextJob(d)
\* ---- SHA-256 engine
S256 == ~Done /\ J.kind = "xmd-sha256"
NBlocks256 == Sha256PadLen(Len(HashIn)) \div 64
Start256 == /\ S256 /\ t = -1 /\ ws' = [i \in 1..16 |-> Block256Word(HashIn, blk, i - 1)]
            /\ LET cv == IF blk = 0 THEN H256 ELSE hs IN st' = cv /\ hs' = cv                 \* every hash starts from the initial value
            /\ t' = 0 /\ UNCHANGED <<pc, bad, stage, dst, b0, bprev, out, idx, blk, KVars>>
Step256 == /\ S256 /\ t \in 0..63
           /\ LET w == IF t < 16 THEN ws[t + 1] ELSE NextW256(ws)
              IN st' = Round256(st, w, t) /\ ws' = IF t < 16 THEN ws ELSE [i \in 1..16 |-> IF i < 16 THEN ws[i + 1] ELSE w]
           /\ t' = t + 1 /\ UNCHANGED <<pc, bad, stage, dst, b0, bprev, out, idx, hs, blk, KVars>>
End256 == /\ S256 /\ t = 64
          /\ LET h2 == [i \in 1..8 |-> Add32(hs[i], st[i])]
             IN IF blk + 1 < NBlocks256 THEN hs' = h2 /\ blk' = blk + 1 /\ UNCHANGED <<pc, bad, stage, dst, b0, bprev, out, idx>>
                ELSE Finish(Digest256(h2)) /\ hs' = h2 /\ blk' = 0
          /\ t' = -1 /\ UNCHANGED <<st, ws, KVars>>
\* ---- SHA-512 / SHA-384 engine
S512 == ~Done /\ J.kind \in {"xmd-sha384", "xmd-sha512"}
NBlocks512 == ShaPadLen(Len(HashIn)) \div 128
Start512 == /\ S512 /\ t = -1 /\ ws' = [i \in 1..16 |-> BlockWord(HashIn, blk, i - 1)]
            /\ LET cv == IF blk = 0 THEN IV ELSE hs IN st' = cv /\ hs' = cv
            /\ t' = 0 /\ UNCHANGED <<pc, bad, stage, dst, b0, bprev, out, idx, blk, KVars>>
Step512 == /\ S512 /\ t \in 0..79
           /\ LET w == IF t < 16 THEN ws[t + 1] ELSE NextW(ws)
              IN st' = Round(st, w, t) /\ ws' = IF t < 16 THEN ws ELSE [i \in 1..16 |-> IF i < 16 THEN ws[i + 1] ELSE w]
           /\ t' = t + 1 /\ UNCHANGED <<pc, bad, stage, dst, b0, bprev, out, idx, hs, blk, KVars>>
End512 == /\ S512 /\ t = 80
          /\ LET h2 == [i \in 1..8 |-> Add64(hs[i], st[i])]
             IN IF blk + 1 < NBlocks512 THEN hs' = h2 /\ blk' = blk + 1 /\ UNCHANGED <<pc, bad, stage, dst, b0, bprev, out, idx>>
                ELSE Finish(SubSeq(Digest(h2), 1, BLen)) /\ hs' = h2 /\ blk' = 0
          /\ t' = -1 /\ UNCHANGED <<st, ws, KVars>>
\* ---- Keccak engine (SHAKE128 / SHAKE256)
SK == ~Done /\ ~IsXmd
KNBlocks == PadLen(Len(HashIn), Rate) \div Rate
KStart == /\ SK /\ ph = "start"
          /\ A' = AbsorbBlock(ZeroState, HashIn, 31, Rate, 0) /\ ph' = "theta" /\ r' = 1 /\ kblk' = 0 /\ kacc' = <<>>
          /\ UNCHANGED <<pc, bad, stage, dst, b0, bprev, out, idx, Sha2Vars>>
KTheta == SK /\ ph = "theta" /\ A' = StepTheta(A) /\ ph' = "rhopi" /\ UNCHANGED <<pc, bad, stage, dst, b0, bprev, out, idx, Sha2Vars, r, kblk, kacc>>
KRhoPi == SK /\ ph = "rhopi" /\ A' = StepRhoPi(A) /\ ph' = "chi" /\ UNCHANGED <<pc, bad, stage, dst, b0, bprev, out, idx, Sha2Vars, r, kblk, kacc>>
KChi == /\ SK /\ ph = "chi" /\ A' = StepChiIota(A, r)
        /\ IF r = 24 THEN r' = 1 /\ ph' = "permuted" ELSE r' = r + 1 /\ ph' = "theta"
        /\ UNCHANGED <<pc, bad, stage, dst, b0, bprev, out, idx, Sha2Vars, kblk, kacc>>
KAfter == /\ SK /\ ph = "permuted"
          /\ IF kblk + 1 < KNBlocks
             THEN A' = AbsorbBlock(A, HashIn, 31, Rate, kblk + 1) /\ kblk' = kblk + 1 /\ ph' = "theta" /\ UNCHANGED <<pc, bad, stage, dst, b0, bprev, out, idx, r, kacc>>
             ELSE LET o == kacc \o StateBytes(A, Rate) IN
                  IF Len(o) >= XofOutLen THEN Finish(SubSeq(o, 1, XofOutLen)) /\ ph' = "start" /\ kacc' = <<>> /\ kblk' = 0 /\ UNCHANGED <<A, r>>
                  ELSE kacc' = o /\ ph' = "theta" /\ UNCHANGED <<pc, bad, stage, dst, b0, bprev, out, idx, A, r, kblk>>
          /\ UNCHANGED Sha2Vars
J1 == Jobs[1]
Init == /\ pc = 1 /\ bad = {} /\ out = <<>> /\ idx = 0 /\ b0 = <<>> /\ bprev = <<>>
        /\ dst = (IF Len(J1.dst) > 255 THEN <<>> ELSE J1.dst)
        /\ stage = (IF Len(J1.dst) > 255 THEN "dst" ELSE IF J1.kind \in {"xmd-sha256", "xmd-sha384", "xmd-sha512"} THEN "b0" ELSE "x")
        /\ hs = <<>> /\ st = <<>> /\ ws = <<>> /\ t = -1 /\ blk = 0
        /\ A = ZeroState /\ r = 1 /\ ph = "start" /\ kblk = 0 /\ kacc = <<>>
Next == Start256 \/ Step256 \/ End256 \/ Start512 \/ Step512 \/ End512 \/ KStart \/ KTheta \/ KRhoPi \/ KChi \/ KAfter
Spec == Init /\ [][Next]_vars
ASSUME TLCSet(1, 0) /\ TLCSet(2, {})
HighWater == IF pc > TLCGet(1) THEN TLCSet(1, pc) /\ TLCSet(2, bad) ELSE TRUE
Verdict == JsonSerialize("verdict.json", [consumed |-> TLCGet(1) - 1, total |-> Len(Jobs), bad |-> TLCGet(2)])
====
