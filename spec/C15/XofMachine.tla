---- MODULE XofMachine ----
(* C15, API level.  An extendable-output function object (sha3.State, xof.XOF, k12.State, BLAKE2X) seen
   through Write / Read / Clone / Reset / Sum.  Because the driver always writes the bytes B[0..] of one
   fixed pseudo-random string, the absorbed content is identified by its LENGTH; the only thing a handle
   remembers is how much it absorbed and how much it squeezed.  Read(h, n) must return
   Stream(absorbed)[squeezed .. squeezed+n) where Stream(L) is the one-shot output for B[0..L).       *)
EXTENDS Integers, Sequences, FiniteSets, TLC
CONSTANTS WSizes, RSizes, H, MaxAbs, MaxSq
VARIABLES st, last
Dead == [live |-> FALSE, absorbed |-> 0, squeezed |-> 0, phase |-> "absorb"]
Init == st = [h \in H |-> IF h = 0 THEN [Dead EXCEPT !.live = TRUE] ELSE Dead] /\ last = <<"init">>
Write(h, n) == /\ st[h].live /\ st[h].phase = "absorb" /\ st[h].absorbed + n <= MaxAbs    \* Write after Read panics by design
               /\ st' = [st EXCEPT ![h].absorbed = @ + n] /\ last' = <<"write", h, n>>
Read(h, n) == /\ st[h].live /\ st[h].squeezed + n <= MaxSq
              /\ last' = <<"read", h, n, st[h].absorbed, st[h].squeezed>>           \* what must be observed
              /\ st' = [st EXCEPT ![h].squeezed = @ + n, ![h].phase = "squeeze"]
Clone(h, g) == /\ st[h].live /\ h # g /\ st' = [st EXCEPT ![g] = st[h]] /\ last' = <<"clone", h, g>>
Reset(h) == /\ st[h].live /\ st' = [st EXCEPT ![h] = [Dead EXCEPT !.live = TRUE]] /\ last' = <<"reset", h>>
Sum(h) == /\ st[h].live /\ st[h].phase = "absorb" /\ last' = <<"sum", h, st[h].absorbed>> /\ UNCHANGED st
Next == \/ \E h \in H, n \in WSizes : Write(h, n)
        \/ \E h \in H, n \in RSizes : Read(h, n)
        \/ \E h, g \in H : Clone(h, g)
        \/ \E h \in H : Reset(h) \/ Sum(h)
Spec == Init /\ [][Next]_<<st, last>>
\* design-level sanity: an observation only ever depends on the handle's own totals
TypeOK == \A h \in H : st[h].absorbed \in 0..MaxAbs /\ st[h].squeezed \in 0..MaxSq
ReadsContiguous == [][\A h \in H : (last'[1] = "read" /\ last'[2] = h) => last'[5] = st[h].squeezed /\ last'[4] = st[h].absorbed]_<<st, last>>
====
