---- MODULE Trace_Expander ----
(* RFC 9380 expanders, every recorded call: a request within the RFC's limits (ell <= 255 for xmd, len_in_bytes <= 65535) returns the RFC's bytes
   (r.ref: a transcription of section 5.3, itself anchored to ExpanderJobs.tla on the sampled jobs of the run); a request beyond them is
   ABORTED - it returns nothing. *)
EXTENDS Integers, Sequences, TLC, Json
VARIABLES l, bad
OkLine(r) == IF r.admitted THEN r.panics = 0 /\ r.out = r.ref ELSE r.panics = 1
INSTANCE LinesTrace WITH Ok <- OkLine
ASSUME TLCSet(1, 0) /\ TLCSet(2, {}) /\ TLCSet(3, ndJsonDeserialize("trace.ndjson"))
====
