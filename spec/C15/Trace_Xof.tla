---- MODULE Trace_Xof ----
(* Trace validation of real XOF / hash objects against XofMachine.  Each line is one call made by
   harness/drivers/c15 (or the in-package k12 recorder for forced lane counts) with what it observed:
   for a read, WHICH one-shot reference stream (identified by message length lobs) and WHICH offset pobs
   the returned bytes were found at; -1 when they occur in no reference stream.                       *)
EXTENDS Integers, Sequences, FiniteSets, TLC, Json
WSizes == Nat
RSizes == Nat
H == {0, 1, 2}
MaxAbs == 1000000
MaxSq == 1000000
VARIABLES st, last, l
INSTANCE XofMachine
Tr == ndJsonDeserialize("trace.ndjson")
Cur == Tr[l]
IsEv(e) == l <= Len(Tr) /\ Cur.op = e /\ l' = l + 1
TStart == IsEv("start") /\ st' = [h \in H |-> IF h = 0 THEN [Dead EXCEPT !.live = TRUE] ELSE Dead] /\ last' = <<"init">>
TWrite == IsEv("write") /\ ~Cur.panic /\ Write(Cur.h, Cur.n)
TRead  == /\ IsEv("read") /\ ~Cur.panic /\ Read(Cur.h, Cur.n)
          /\ (Cur.n = 0 \/ (Cur.lobs = st[Cur.h].absorbed /\ Cur.pobs = st[Cur.h].squeezed))
TClone == IsEv("clone") /\ ~Cur.panic /\ Clone(Cur.h, Cur.g)
TReset == IsEv("reset") /\ ~Cur.panic /\ Reset(Cur.h)
TSum   == IsEv("sum") /\ ~Cur.panic /\ Sum(Cur.h) /\ Cur.lobs = st[Cur.h].absorbed
TNext == TStart \/ TWrite \/ TRead \/ TClone \/ TReset \/ TSum
TInit == l = 1 /\ Init
TSpec == TInit /\ [][TNext]_<<st, last, l>>
ASSUME TLCSet(1, 0)
HighWater == TLCSet(1, IF l > TLCGet(1) THEN l ELSE TLCGet(1))
Verdict == JsonSerialize("verdict.json", [consumed |-> TLCGet(1) - 1, total |-> Len(Tr)])
====
