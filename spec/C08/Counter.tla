---- MODULE Counter ----
(* The HPKE sequence number as hpke/aead.go keeps it: Nn base-B digits, most significant first. *)
EXTENDS Integers
CONSTANTS B, Nn
Digits == 0..(B-1)
Ctr == [1..Nn -> Digits]                       \* index 1 most significant (as the byte array)
AllMax(s) == \A i \in 1..Nn : s[i] = B-1
RECURSIVE IncFrom(_,_)
IncFrom(s, i) == IF i = 0 THEN s               \* the carry loop of increment(), least significant first
                 ELSE IF s[i] = B-1 THEN IncFrom([s EXCEPT ![i] = 0], i-1)
                 ELSE [s EXCEPT ![i] = s[i] + 1]
Inc(s) == IncFrom(s, Nn)
RECURSIVE ToIntFrom(_,_)
ToIntFrom(s, i) == IF i = 0 THEN 0 ELSE ToIntFrom(s, i-1) * B + s[i]
ToInt(s) == ToIntFrom(s, Nn)

IncIsPlusOne == \A s \in Ctr : ~AllMax(s) => ToInt(Inc(s)) = ToInt(s) + 1
MaxIsMax     == \A s \in Ctr : AllMax(s) <=> ToInt(s) = B^Nn - 1
====
