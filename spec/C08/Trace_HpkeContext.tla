---- MODULE Trace_HpkeContext ----
(* Trace validation: every line of trace.ndjson is one public call made on REAL hpke contexts by
   harness/drivers/c08 with the values it observed (post sequence numbers read back through
   MarshalBinary, the nonce counter under which the produced ciphertext really was sealed, the
   plaintext released).  A line is consumed only if the corresponding HpkeContext action, with
   those values, is a step of the specification. *)
EXTENDS Integers, Sequences, FiniteSets, TLC, Json
B == 256
Nn == 12
PT == {0, 1}
AAD == {0, 1}
VARIABLES sseq, oseq, wire, nseal, nopen, last, l
INSTANCE HpkeContext
Tr == ndJsonDeserialize("trace.ndjson")
ToFn(s) == [i \in 1..Nn |-> s[i]]
Cur == Tr[l]
IsEv(e) == l <= Len(Tr) /\ Cur.ev = e /\ l' = l + 1
Post == sseq' = ToFn(Cur.sseq) /\ oseq' = ToFn(Cur.oseq)
CtOf(k) == CHOOSE c \in wire : c.k = k
TReset == /\ IsEv("reset") /\ sseq' = ToFn(Cur.sseq) /\ oseq' = ToFn(Cur.oseq)
          /\ wire' = {} /\ nseal' = 0 /\ nopen' = 0 /\ last' = <<"init">>
TSealOk == /\ IsEv("seal") /\ Cur.ok /\ Seal(Cur.pt, Cur.aad) /\ Post
           /\ ToFn(Cur.nonce) = sseq                  \* the nonce really used is base_nonce XOR (counter before)
TSealOv == IsEv("seal") /\ ~Cur.ok /\ SealOverflow /\ Post /\ ~Cur.released
TOpenOk == /\ IsEv("open") /\ Cur.ok /\ OpenOk(CtOf(Cur.k), Cur.aad) /\ Post
           /\ CtOf(Cur.k).pt = Cur.gotpt
TOpenFail == /\ IsEv("open") /\ ~Cur.ok /\ ~Cur.released /\ Post
             /\ (OpenFail(CtOf(Cur.k), Cur.aad) \/ OpenOverflow(CtOf(Cur.k), Cur.aad))
TGarbage == IsEv("garbage") /\ ~Cur.ok /\ ~Cur.released /\ OpenGarbage /\ Post
TOpenMax == IsEv("openmax") /\ ~Cur.ok /\ ~Cur.released /\ OpenForgedAtMax /\ Post
TExport == IsEv("export") /\ Cur.ok /\ Export /\ Post
TRestore == IsEv("restore") /\ Cur.ok /\ Restore /\ Post
TNext == TReset \/ TSealOk \/ TSealOv \/ TOpenOk \/ TOpenFail \/ TGarbage \/ TOpenMax \/ TExport \/ TRestore
TInit == l = 1 /\ sseq = [i \in 1..Nn |-> 0] /\ oseq = sseq /\ wire = {} /\ nseal = 0 /\ nopen = 0 /\ last = <<"init">>
TSpec == TInit /\ [][TNext]_<<sseq, oseq, wire, nseal, nopen, last, l>>
HighWater == TLCSet(1, IF l > TLCGet(1) THEN l ELSE TLCGet(1))
ASSUME TLCSet(1, 0)
Verdict == JsonSerialize("verdict.json", [consumed |-> TLCGet(1) - 1, total |-> Len(Tr)])
====
