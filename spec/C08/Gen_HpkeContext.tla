---- MODULE Gen_HpkeContext ----
(* Behaviour generator at the REAL counter size (B = 256, Nn = 12): TLC -simulate walks the very
   actions that were model-checked and the call schedules it produces are replayed on real
   contexts by harness/drivers/c08.  Start values sit at the carry boundaries of the counter. *)
EXTENDS Integers, Sequences, FiniteSets, TLC, Json, SequencesExt
B == 256
Nn == 12
PT == {0, 1}
AAD == {0, 1}
CONSTANT D
VARIABLES sseq, oseq, wire, nseal, nopen, last, hist
INSTANCE HpkeContext
Low(n, v) == [i \in 1..Nn |-> IF i > Nn - n THEN (IF i = Nn THEN v ELSE 255) ELSE 0]   \* 2^(8n) - 256 + v
Starts == { Low(1, 0), Low(1, 1), Low(1, 254), Low(2, 254), Low(2, 253), Low(3, 254), Low(4, 254), Low(4, 252),
            Low(8, 254), Low(8, 253), Low(12, 253), Low(12, 254), Low(12, 255), Low(11, 254),
            [i \in 1..Nn |-> IF i = 1 THEN 0 ELSE IF i = Nn THEN 253 ELSE 255] }
GInit == /\ sseq \in Starts /\ oseq = sseq /\ wire = {} /\ nseal = 0 /\ nopen = 0 /\ last = <<"init">>
         /\ hist = << [op |-> "start", a |-> 0, b |-> 0, seq |-> sseq] >>
Rec(op, a, b) == hist' = Append(hist, [op |-> op, a |-> a, b |-> b, seq |-> <<>>])
GNext == /\ Len(hist) <= D
         /\ \/ \E p \in PT, a \in AAD : Seal(p, a) /\ Rec("seal", p, a)
            \/ SealOverflow /\ Rec("seal", 0, 0)
            \/ \E c \in wire, a \in AAD : (OpenOk(c, a) \/ OpenFail(c, a) \/ OpenOverflow(c, a)) /\ Rec("open", c.k, a)
            \/ OpenGarbage /\ Rec("garbage", 0, 0)
            \/ Export /\ Rec("export", 0, 0)
            \/ Restore /\ \E r \in {0, 1} : Rec("restore", r, 0)
GSpec == GInit /\ [][GNext]_<<sseq, oseq, wire, nseal, nopen, last, hist>>
ASSUME TLCSet(1, {})
Collect == (Len(hist) = D + 1) => TLCSet(1, TLCGet(1) \cup {hist})
Post == JsonSerialize("behaviours.json", SetToSeq(TLCGet(1)))
====
