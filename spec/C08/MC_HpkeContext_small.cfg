SPECIFICATION Spec
CONSTANTS B = 2
 Nn = 3
 PT = {1,2}
 AAD = {1}
INVARIANTS NonceUnique LockStep NoWrap IthSealNonce OpenedPrefix
PROPERTY FailKeeps
CHECK_DEADLOCK FALSE
