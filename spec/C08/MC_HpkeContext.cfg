SPECIFICATION Spec
CONSTANTS B = 3
 Nn = 2
 PT = {1,2}
 AAD = {1,2}
INVARIANTS NonceUnique LockStep NoWrap IthSealNonce OpenedPrefix
PROPERTY FailKeeps
CHECK_DEADLOCK FALSE
