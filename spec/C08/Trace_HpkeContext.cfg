SPECIFICATION TSpec
INVARIANTS NonceUnique LockStep NoWrap IthSealNonce OpenedPrefix
CONSTRAINT HighWater
POSTCONDITION Verdict
CHECK_DEADLOCK FALSE
