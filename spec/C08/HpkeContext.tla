---------------------------- MODULE HpkeContext ----------------------------
(* C08.  An HPKE sealing context and its opening context (hpke/aead.go, hpke/marshal.go),
   implementation-shaped: the sequence number is an Nn-digit base-B big-endian counter that is
   incremented digit by digit with carry exactly like increment(); AEAD is abstract (a
   ciphertext opens iff key, nonce counter and aad match).  One action per public call.     *)
EXTENDS Integers, Sequences, FiniteSets, TLC
CONSTANTS B, Nn, PT, AAD
INSTANCE Counter     \* Ctr, AllMax, Inc, ToInt: the byte-wise counter arithmetic of increment()

VARIABLES sseq, oseq,     \* sealer / opener sequence numbers
          wire,           \* ciphertexts produced: [n |-> counter whose nonce sealed it, pt, aad, k |-> ordinal]
          nseal, nopen,   \* numbers of successful seals / opens
          last            \* result of the last call (observation only)
vars == <<sseq, oseq, wire, nseal, nopen, last>>

Init == /\ sseq \in Ctr /\ oseq = sseq
        /\ wire = {} /\ nseal = 0 /\ nopen = 0 /\ last = <<"init">>

Seal(p, a) == /\ ~AllMax(sseq)
              /\ wire' = wire \cup {[n |-> sseq, pt |-> p, aad |-> a, k |-> nseal]}
              /\ sseq' = Inc(sseq) /\ nseal' = nseal + 1 /\ last' = <<"sealed", sseq>>
              /\ UNCHANGED <<oseq, nopen>>
SealOverflow == /\ AllMax(sseq) /\ last' = <<"seal-overflow">>
                /\ UNCHANGED <<sseq, oseq, wire, nseal, nopen>>
OpenOk(c, a) == /\ c \in wire /\ c.n = oseq /\ c.aad = a /\ ~AllMax(oseq)
                /\ oseq' = Inc(oseq) /\ nopen' = nopen + 1 /\ last' = <<"opened", c.pt, c.k>>
                /\ UNCHANGED <<sseq, wire, nseal>>
OpenFail(c, a) == /\ c \in wire /\ (c.n # oseq \/ c.aad # a)
                  /\ last' = <<"open-fail">> /\ UNCHANGED <<sseq, oseq, wire, nseal, nopen>>
OpenGarbage == /\ last' = <<"open-fail">> /\ UNCHANGED <<sseq, oseq, wire, nseal, nopen>>
OpenOverflow(c, a) == /\ c \in wire /\ c.n = oseq /\ c.aad = a /\ AllMax(oseq)
                      /\ last' = <<"open-overflow">> /\ UNCHANGED <<sseq, oseq, wire, nseal, nopen>>
OpenForgedAtMax == /\ AllMax(oseq) /\ last' = <<"open-overflow">>      \* a ciphertext that DOES authenticate under the
                   /\ UNCHANGED <<sseq, oseq, wire, nseal, nopen>>       \* maximal counter is still refused, nothing released
Export == /\ last' = <<"export">> /\ UNCHANGED <<sseq, oseq, wire, nseal, nopen>>
Restore == /\ last' = <<"restore">> /\ UNCHANGED <<sseq, oseq, wire, nseal, nopen>>   \* marshal + unmarshal, either role

Next == \/ \E p \in PT, a \in AAD : Seal(p, a)
        \/ SealOverflow
        \/ \E c \in wire, a \in AAD : OpenOk(c, a) \/ OpenFail(c, a) \/ OpenOverflow(c, a)
        \/ OpenGarbage \/ OpenForgedAtMax \/ Export \/ Restore
Spec == Init /\ [][Next]_vars

NonceUnique   == \A c1, c2 \in wire : c1.n = c2.n => c1 = c2
LockStep      == last[1] = "opened" => last[3] = nopen - 1       \* i-th ciphertext opens only as i-th open
NoWrap        == \A c \in wire : ~AllMax(c.n)                    \* nothing is released at the maximum
IthSealNonce  == \A c1, c2 \in wire : c2.k = c1.k + 1 => c2.n = Inc(c1.n)    \* with MC_Inc: Inc is +1, so i-th seal uses start + i
FailKeeps     == [][last'[1] \in {"open-fail", "open-overflow", "export", "restore", "seal-overflow"}
                    => (oseq' = oseq /\ sseq' = sseq /\ wire' = wire)]_vars
OpenedPrefix  == nopen <= nseal
View == <<sseq, oseq, wire, nseal, nopen>>
=============================================================================
