---- MODULE MC_Inc ----
(* Constant-level theorems of the counter arithmetic, evaluated by TLC for two shapes. *)
EXTENDS Integers
A == INSTANCE Counter WITH B <- 4, Nn <- 4
C == INSTANCE Counter WITH B <- 2, Nn <- 9
ASSUME A!IncIsPlusOne /\ A!MaxIsMax
ASSUME C!IncIsPlusOne /\ C!MaxIsMax
====
