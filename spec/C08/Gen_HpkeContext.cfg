SPECIFICATION GSpec
CONSTANT D = 14
INVARIANT Collect
POSTCONDITION Post
CHECK_DEADLOCK FALSE
