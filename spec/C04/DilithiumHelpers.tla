---- MODULE DilithiumHelpers ----
(* C04, scalar level: FIPS 204 Algorithms 35-40 and the modular reductions as statements about the values the recorders dumped.
   A block is [fn, alpha, hint, x0, step, ys, zs, hi, lo, as, bs]; for the rounding functions ys[i] (and zs[i]) belong to x0 + (i-1) step.  *)
EXTENDS Integers, Sequences, TLC
Q == 8380417
D == 13
Mod(x) == ((x % Q) + Q) % Q
CMod(x, m) == LET r == ((x % m) + m) % m IN IF r > m \div 2 THEN r - m ELSE r          \* centred: in (-m/2, m/2]
\* (a * b) mod q without leaving 32-bit integers: a, b < 2^24
MulQ(a, b) == LET aa == a % Q   b2 == b \div 65536   b1 == (b \div 256) % 256   b0 == b % 256
                  t1 == (((aa * b2) % Q) * 256) % Q
                  t2 == (t1 + ((aa * b1) % Q)) % Q
                  t3 == (t2 * 256) % Q
              IN (t3 + ((aa * b0) % Q)) % Q
X(r, i) == r.x0 + (i - 1) * r.step
P2R(r) == LET r0 == CMod(r, 2^D) IN <<(r - r0) \div (2^D), r0>>                                    \* Algorithm 35
Decompose(r, g2) == LET r0 == CMod(r, 2 * g2) IN IF r - r0 = Q - 1 THEN <<0, r0 - 1>> ELSE <<(r - r0) \div (2 * g2), r0>>   \* Algorithm 36
HighBits(r, g2) == Decompose(r, g2)[1]
MakeHint(z, r, g2) == IF HighBits(r, g2) # HighBits(Mod(r + z), g2) THEN 1 ELSE 0                    \* Algorithm 39
UseHint(h, r, g2) == LET m == (Q - 1) \div (2 * g2)   d == Decompose(r, g2)                          \* Algorithm 40
                     IN IF h = 1 THEN (IF d[2] > 0 THEN (d[1] + 1) % m ELSE (d[1] - 1 + m) % m) ELSE d[1]
X32(r, i) == (((r.hi[i] * 256) % Q) * 256 + r.lo[i]) % Q                                            \* x mod q for x = hi 2^16 + lo
OkBlock(r) ==
  LET g2 == r.alpha \div 2 IN
  CASE r.fn = "power2round" -> \A i \in 1..Len(r.ys) : LET p == P2R(X(r, i)) IN r.ys[i] = p[1] /\ r.zs[i] = p[2] + Q
    [] r.fn = "decompose" -> \A i \in 1..Len(r.ys) : LET d == Decompose(X(r, i), g2) IN r.ys[i] = d[1] /\ r.zs[i] = d[2] + Q
    [] r.fn = "useHint" -> \A i \in 1..Len(r.ys) : r.ys[i] = UseHint(r.hint, X(r, i), g2)
    [] r.fn = "makeHint" -> \A i \in 1..Len(r.ys) : r.ys[i] = MakeHint(Mod(0 - r.bs[i]), r.as[i], g2)
    [] r.fn = "le2qModQ" -> \A i \in 1..Len(r.ys) : r.ys[i] = X(r, i) % Q
    [] r.fn = "ReduceLe2Q" -> \A i \in 1..Len(r.ys) : r.ys[i] < 2 * Q /\ r.ys[i] % Q = X32(r, i)
    [] r.fn = "modQ" -> \A i \in 1..Len(r.ys) : r.ys[i] = X32(r, i)
    [] r.fn = "montReduceLe2Q" -> \A i \in 1..Len(r.ys) : r.ys[i] <= 2 * Q /\ MulQ(r.ys[i] % Q, 4193792) = MulQ(r.as[i] % Q, r.bs[i] % Q)    \* y 2^32 = a b (mod q)
    [] OTHER -> FALSE
====
