CONSTANTS Strict = FALSE
