CONSTANTS Strict = TRUE
