---- MODULE HintBits ----
(* C04.  FIPS 204 Algorithms 20 / 21 (HintBitPack / HintBitUnpack) over byte sequences (1-indexed here): the hint section of a signature
   is omega index bytes followed by k cumulative counts.  Unpack fails unless the counts are non-decreasing and at most omega, the indices
   of each polynomial are STRICTLY increasing and the unused index bytes are zero - which makes the encoding of a hint vector unique
   (strong unforgeability).  A hint vector is a set of pairs <<polynomial, coefficient>>.
   Strict = FALSE is the seeded deviation "indices may repeat" that TLC must catch in MC_HintBits. *)
EXTENDS Integers, Sequences, FiniteSets
RECURSIVE PolyOk(_, _, _, _), Walk(_, _, _, _, _, _)
\* indices y[first+1 .. end] (0-based positions first .. end-1) strictly increasing
PolyOk(y, first, end, strict) == \A t \in (first + 2)..end : IF strict THEN y[t - 1] < y[t] ELSE y[t - 1] <= y[t]
\* returns <<ok, set of pairs, idx>> after polynomials i..K-1, starting at position idx
Walk(y, K, Omega, i, idx, strict) ==
  IF i = K THEN <<TRUE, {}, idx>>
  ELSE LET end == y[Omega + i + 1]
       IN IF end < idx \/ end > Omega \/ ~PolyOk(y, idx, end, strict) THEN <<FALSE, {}, idx>>
          ELSE LET rest == Walk(y, K, Omega, i + 1, end, strict)
               IN <<rest[1], {<<i, y[t]>> : t \in (idx + 1)..end} \cup rest[2], rest[3]>>
Unpack(y, K, Omega, strict) ==
  LET w == Walk(y, K, Omega, 0, 0, strict)
  IN IF Len(y) = Omega + K /\ w[1] /\ (\A t \in (w[3] + 1)..Omega : y[t] = 0) THEN [ok |-> TRUE, h |-> w[2]] ELSE [ok |-> FALSE, h |-> {}]
Canonical(y, K, Omega) == Unpack(y, K, Omega, TRUE).ok
\* Pack: indices of each polynomial in increasing order, then the cumulative counts
RECURSIVE SortedSeq(_), PackIdx(_, _, _), Counts(_, _, _)
SortedSeq(S) == IF S = {} THEN <<>> ELSE LET m == CHOOSE x \in S : \A z \in S : x <= z IN <<m>> \o SortedSeq(S \ {m})
PackIdx(h, K, i) == IF i = K THEN <<>> ELSE SortedSeq({p[2] : p \in {q \in h : q[1] = i}}) \o PackIdx(h, K, i + 1)
Counts(h, K, i) == IF i = K THEN <<>> ELSE <<Cardinality({q \in h : q[1] <= i})>> \o Counts(h, K, i + 1)
Pack(h, K, Omega) == LET ix == PackIdx(h, K, 0) IN ix \o [t \in 1..(Omega - Len(ix)) |-> 0] \o Counts(h, K, 0)
====
