---- MODULE Trace_Dsa ----
(* keygen / sign : bytes equal FIPS 204 / Dilithium 3.1 (the transcription), deterministic and hedged (explicit rnd)
   verify        : accepted iff lengths and context length are right, the hint section is canonical (TLC runs HintBitUnpack on the recorded
                   bytes), ||z|| < gamma1 - beta (recorded maximum) and the recomputed commitment hash equals c~ (transcription)
   helper        : DilithiumHelpers!OkBlock                                                                                  *)
EXTENDS Integers, Sequences, TLC, Json
VARIABLES l, bad
DH == INSTANCE DilithiumHelpers
HB == INSTANCE HintBits
Expected(r) == /\ r.len_ok /\ r.ctx_ok
               /\ HB!Canonical(r.hints, r.k, r.omega)
               /\ r.zmax < r.gamma1 - r.beta
               /\ r.ctilde_ok
OkLine(r) ==
  CASE r.ev = "keygen" -> r.panics = 0 /\ r.pk = r.ref_pk /\ r.sk = r.ref_sk
    [] r.ev = "sign" -> r.panics = 0 /\ r.sig = r.ref_sig
    [] r.ev = "verify" -> r.panics = 0 /\ (r.accepted <=> Expected(r)) /\ (r.len_ok /\ r.ctx_ok => (r.hint_ok_ref <=> HB!Canonical(r.hints, r.k, r.omega)))
    [] r.ev = "helper" -> DH!OkBlock(r)
    [] OTHER -> FALSE
INSTANCE LinesTrace WITH Ok <- OkLine
ASSUME TLCSet(1, 0) /\ TLCSet(2, {}) /\ TLCSet(3, ndJsonDeserialize("trace.ndjson"))
====
