---- MODULE MC_HintBits ----
(* Toy parameters (k = 2 polynomials of 3 coefficients, omega = 3): for EVERY byte string of the right length and EVERY hint vector
     - Unpack(Pack(h)) = h for every vector of weight at most omega;
     - if Unpack accepts y then y = Pack(Unpack(y)): no hint vector has two accepted spellings.
   With Strict = FALSE (indices may repeat) the second statement fails - TLC reports it. *)
EXTENDS Integers, Sequences, FiniteSets, TLC
CONSTANTS Strict
HB == INSTANCE HintBits
K == 2
NC == 3
Omega == 3
Vecs == {h \in SUBSET ((0..(K - 1)) \X (0..(NC - 1))) : Cardinality(h) <= Omega}
Strings == [1..(Omega + K) -> 0..3]
RoundTrip == \A h \in Vecs : LET u == HB!Unpack(HB!Pack(h, K, Omega), K, Omega, Strict) IN u.ok /\ u.h = h
Unique == \A y \in Strings : LET u == HB!Unpack(y, K, Omega, Strict) IN
             (u.ok /\ (\A p \in u.h : p[2] < NC)) => HB!Pack(u.h, K, Omega) = y
ASSUME RoundTrip
ASSUME Unique \/ Print("an accepted hint string is not the canonical packing of its vector", FALSE)
====
