---- MODULE MLDSAVerifyJob ----
(* C04, anchor.  FIPS 204 ML-DSA.Verify_internal(pk, M', sigma) - and Dilithium 3.1 verification - as an executable behaviour: sigDecode (c~, z,
   HintBitUnpack from HintBits.tla), tr = H(pk), mu = H(tr || M'), ExpandA, SampleInBall, NTT of z, c and t1 2^d layer by layer,
   w' = NTT^-1(A o z^ - c^ o t1^), UseHint, w1Encode, c~' = H(mu || w1Encode(w1')), and the verdict  hint decodes /\ ||z|| < gamma1 - beta /\ c~ = c~'.
   job.json: [flavor, k, l, tau, beta, g1bits, gamma2, omega, ctl, pk, mprime, sig, accepted]; the verdict says whether the library's answer is the
   standard's (and reports the three conditions). *)
EXTENDS Integers, Sequences, TLC, Bitwise, Json
JobIn == JsonDeserialize("job.json")
\* lane = <<l1,l2,l3,l4>> 16-bit limbs, l1 least significant
M16 == 65535
Pow2(n) == 2^n
XorL(a, b) == <<a[1] ^^ b[1], a[2] ^^ b[2], a[3] ^^ b[3], a[4] ^^ b[4]>>
NotL(a) == <<M16 - a[1], M16 - a[2], M16 - a[3], M16 - a[4]>>
AndL(a, b) == <<a[1] & b[1], a[2] & b[2], a[3] & b[3], a[4] & b[4]>>
\* rotate left by n (0..63)
RotL(a, n) == LET w == n \div 16
                  b == n % 16
                  Get(i) == a[((((i - 1 - w) % 4) + 4) % 4) + 1]      \* limb i takes from limb i-w
                  Prev(i) == a[((((i - 2 - w) % 4) + 4) % 4) + 1]
                  Limb(i) == IF b = 0 THEN Get(i)
                             ELSE ((Get(i) % Pow2(16 - b)) * Pow2(b)) + shiftR(Prev(i), 16 - b)
              IN <<Limb(1), Limb(2), Limb(3), Limb(4)>>
RhoOff == <<0, 1, 62, 28, 27, 36, 44, 6, 55, 20, 3, 10, 43, 25, 39, 41, 45, 15, 21, 8, 18, 2, 61, 56, 14>>  \* index x+5y+1
RC == << <<1,0,0,0>>, <<32898,0,0,0>>, <<32906,0,0,32768>>, <<32768,32768,0,32768>>,
         <<32907,0,0,0>>, <<1,32768,0,0>>, <<32897,32768,0,32768>>, <<32777,0,0,32768>>,
         <<138,0,0,0>>, <<136,0,0,0>>, <<32777,32768,0,0>>, <<10,32768,0,0>>,
         <<32907,32768,0,0>>, <<139,0,0,32768>>, <<32905,0,0,32768>>, <<32771,0,0,32768>>,
         <<32770,0,0,32768>>, <<128,0,0,32768>>, <<32778,0,0,0>>, <<10,32768,0,32768>>,
         <<32897,32768,0,32768>>, <<32896,0,0,32768>>, <<1,32768,0,0>>, <<32776,32768,0,32768>> >>
Idx(x, y) == x + 5*y   \* 0-based index into 0..24



K == JobIn.k
L == JobIn.l
Tau == JobIn.tau
Beta == JobIn.beta
G1Bits == JobIn.g1bits
Gamma1 == 2^G1Bits
ZBits == G1Bits + 1
Gamma2 == JobIn.gamma2
Omega == JobIn.omega
CtLen == JobIn.ctl
NIST == JobIn.flavor = "mldsa"
TRLen == IF NIST THEN 64 ELSE 32
W1Bits == IF Gamma2 = 95232 THEN 6 ELSE 4
Pk == JobIn.pk
Sig == JobIn.sig
LenOk == Len(Pk) = 32 + 320 * K /\ Len(Sig) = CtLen + L * 32 * ZBits + Omega + K
CTilde == SubSeq(Sig, 1, CtLen)
HintBytes == SubSeq(Sig, CtLen + L * 32 * ZBits + 1, Len(Sig))
HB == INSTANCE HintBits
DH == INSTANCE DilithiumHelpers
HintDec == HB!Unpack(HintBytes, K, Omega, TRUE)
Eta == 2            \* only used by the key-generation sampler, which this module does not call
Q == 8380417
Dd == 13
\* (a * b) mod q inside 32-bit integers (a < q, b < 2^24)
MulQ(a, b) == LET b2 == b \div 65536   b1 == (b \div 256) % 256   b0 == b % 256
                  t1 == (((a * b2) % Q) * 256) % Q
                  t2 == (t1 + ((a * b1) % Q)) % Q
                  t3 == (t2 * 256) % Q
              IN (t3 + ((a * b0) % Q)) % Q
RECURSIVE PowQ(_, _)
PowQ(b, e) == IF e = 0 THEN 1 ELSE LET h == PowQ(b, e \div 2) IN IF (e % 2) = 0 THEN MulQ(h, h) ELSE MulQ(MulQ(h, h), b)
BitRev8(i) == ((i % 2) * 128) + (((i \div 2) % 2) * 64) + (((i \div 4) % 2) * 32) + (((i \div 8) % 2) * 16)
              + (((i \div 16) % 2) * 8) + (((i \div 32) % 2) * 4) + (((i \div 64) % 2) * 2) + ((i \div 128) % 2)
Zetas == [i \in 0..255 |-> PowQ(1753, BitRev8(i))]
Bit(Bs, n) == (Bs[(n \div 8) + 1] \div (2^(n % 8))) % 2
\* Algorithm 30 RejNTTPoly on a pre-squeezed buffer
RejNTT(Bs) == LET RECURSIVE Go(_, _)
                  Go(i, acc) == IF Len(acc) >= 256 \/ 3 * i + 3 > Len(Bs) THEN acc
                                ELSE LET v == Bs[3*i+1] + 256 * Bs[3*i+2] + 65536 * (Bs[3*i+3] % 128)
                                     IN Go(i + 1, IF v < Q THEN Append(acc, v) ELSE acc)
              IN Go(0, <<>>)
\* Algorithm 31 RejBoundedPoly / Algorithm 15 CoeffFromHalfByte
Half(b) == IF Eta = 2 /\ b < 15 THEN 2 - (b % 5) ELSE IF Eta = 4 /\ b < 9 THEN 4 - b ELSE 99
RejBounded(Bs) == LET RECURSIVE Go(_, _)
                      Go(i, acc) == IF Len(acc) >= 256 \/ i >= Len(Bs) THEN acc
                                    ELSE LET z0 == Half(Bs[i + 1] % 16)   z1 == Half(Bs[i + 1] \div 16)
                                             a1 == IF z0 # 99 THEN Append(acc, (z0 + Q) % Q) ELSE acc
                                             a2 == IF z1 # 99 /\ Len(a1) < 256 THEN Append(a1, (z1 + Q) % Q) ELSE a1
                                         IN Go(i + 1, a2)
                  IN Go(0, <<>>)
\* Algorithm 41, one layer: lam = 0..7, len = 128 / 2^lam
NTTLayer(f, lam) == LET len == 128 \div (2^lam)
                    IN [j1 \in 1..256 |-> LET j == j1 - 1   g == j \div (2 * len)   z == Zetas[(2^lam) + g]
                                          IN IF (j % (2 * len)) < len THEN (f[j1] + MulQ(z, f[j1 + len])) % Q
                                                                      ELSE (f[j1 - len] - MulQ(z, f[j1]) + Q) % Q]
\* Algorithm 42, one layer: lam = 0..7, len = 2^lam; the final scaling by 256^-1 is separate
INTTLayer(f, lam) == LET len == 2^lam   B == 128 \div len
                     IN [j1 \in 1..256 |-> LET j == j1 - 1   g == j \div (2 * len)   z == Zetas[2 * B - 1 - g]
                                           IN IF (j % (2 * len)) < len THEN (f[j1] + f[j1 + len]) % Q
                                                                       ELSE MulQ(z, (f[j1] - f[j1 - len] + Q) % Q)]       \* (t - w[j+len]) * (-zeta) = (w[j+len] - t) * zeta
Scale(f) == [n \in 1..256 |-> MulQ(f[n], 8347681)]
PMul(a, b) == [n \in 1..256 |-> MulQ(a[n], b[n])]
PAdd(a, b) == [n \in 1..256 |-> (a[n] + b[n]) % Q]
ZeroPoly == [n \in 1..256 |-> 0]
CMod(x, m) == LET rr == x % m IN IF rr > m \div 2 THEN rr - m ELSE rr
EncD(f, d) == [n \in 1..(32 * d) |-> LET bitAt(k) == (f[(k \div d) + 1] \div (2^(k % d))) % 2   b0 == 8 * (n - 1)
                                     IN bitAt(b0) + 2*bitAt(b0+1) + 4*bitAt(b0+2) + 8*bitAt(b0+3) + 16*bitAt(b0+4) + 32*bitAt(b0+5) + 64*bitAt(b0+6) + 128*bitAt(b0+7)]

DecodeAt(bs, off, n, d) == LET RECURSIVE Val(_) Val(b) == IF b = d THEN 0 ELSE Bit(bs, 8 * off + (n - 1) * d + b) * (2^b) + Val(b + 1) IN Val(0)
ZPoly(i) == [n \in 1..256 |-> (Gamma1 - DecodeAt(Sig, CtLen + 32 * ZBits * i, n, ZBits) + Q) % Q]
T1Shifted(i) == [n \in 1..256 |-> (DecodeAt(Pk, 32 + 320 * i, n, 10) * (2^Dd)) % Q]
Abs(x) == IF x < 0 THEN 0 - x ELSE x
Centered(x) == IF x > (Q - 1) \div 2 THEN x - Q ELSE x
ZOk == \A i \in 0..(L - 1) : \A n \in 1..256 : Abs(Centered(ZPoly(i)[n])) < Gamma1 - Beta
\* Algorithm 29 SampleInBall on a pre-squeezed buffer: 8 sign bytes, then rejection bytes
Ball(Bs) == LET RECURSIVE Go(_, _, _)
                Go(i, pos, c) == IF i > 255 THEN c
                                 ELSE IF pos > Len(Bs) THEN <<>>                                            \* ran out of squeezed bytes
                                 ELSE LET j == Bs[pos] IN
                                      IF j > i THEN Go(i, pos + 1, c)
                                      ELSE LET sgn == Bit(Bs, i + Tau - 256)
                                               c1 == [c EXCEPT ![i + 1] = c[j + 1]]
                                           IN Go(i + 1, pos + 1, [c1 EXCEPT ![j + 1] = IF sgn = 1 THEN Q - 1 ELSE 1])
            IN Go(256 - Tau, 9, [n \in 1..256 |-> 0])
\* ---------- the program ----------
RECURSIVE SeqOf(_, _, _)
SeqOf(F(_), i, n) == IF i >= n THEN <<>> ELSE <<F(i)>> \o SeqOf(F, i + 1, n)
AName(t) == <<"A", t \div L, t % L>>
Prog == <<<<"TR", 0, 0>>, <<"MU", 0, 0>>>> \o SeqOf(AName, 0, K * L) \o <<<<"BALL", 0, 0>>, <<"ARITH", 0, 0>>, <<"CT", 0, 0>>, <<"DONE", 0, 0>>>>
VARIABLES A, r, ph, blk, outacc, pc, res, polys, lam
vars == <<A, r, ph, blk, outacc, pc, res, polys, lam>>
Cur == Prog[pc]
R(name) == res[name]
Rho == SubSeq(Pk, 1, 32)
Job == LET n == Cur[1] IN
  CASE n = "TR" -> [rate |-> 136, ds |-> 31, in |-> Pk, outlen |-> TRLen]
    [] n = "MU" -> [rate |-> 136, ds |-> 31, in |-> R(<<"TR", 0, 0>>) \o JobIn.mprime, outlen |-> 64]
    [] n = "A" -> [rate |-> 168, ds |-> 31, in |-> Rho \o <<Cur[3], Cur[2]>>, outlen |-> 840]
    [] n = "BALL" -> [rate |-> 136, ds |-> 31, in |-> CTilde, outlen |-> 272]
    [] n = "CT" -> [rate |-> 136, ds |-> 31, in |-> R(<<"MU", 0, 0>>) \o R(<<"w1", 0, 0>>), outlen |-> CtLen]
IsHashJob == Cur[1] \notin {"ARITH", "DONE"}
PadLen(J) == ((Len(J.in) \div J.rate) + 1) * J.rate
PadByte(J, i) == LET b == IF i <= Len(J.in) THEN J.in[i] ELSE IF i = Len(J.in) + 1 THEN J.ds ELSE 0
                 IN IF i = PadLen(J) THEN (b ^^ 128) ELSE b
NBlocks(J) == PadLen(J) \div J.rate
BlockLane(J, k, j) == [t \in 1..4 |-> PadByte(J, k*J.rate + 8*j + 2*(t-1) + 1) + 256 * PadByte(J, k*J.rate + 8*j + 2*(t-1) + 2)]
Zero == <<0,0,0,0>>
StateBytes(n) == [i \in 1..n |-> LET j == (i-1) \div 8  t == ((i-1) % 8) \div 2
                                 IN IF ((i-1) % 2) = 0 THEN A[j][t+1] % 256 ELSE A[j][t+1] \div 256]
Absorb == /\ IsHashJob /\ ph = "absorb"
          /\ LET J == Job IN A' = [i \in 0..24 |-> IF i < (J.rate \div 8) THEN XorL(A[i], LET bl == BlockLane(J, blk, i) IN <<bl[1],bl[2],bl[3],bl[4]>>) ELSE A[i]]
          /\ ph' = "theta" /\ r' = 1 /\ UNCHANGED <<blk, outacc, pc, res, polys, lam>>
Theta == /\ ph = "theta"
         /\ LET C == [x \in 0..4 |-> XorL(XorL(XorL(XorL(A[Idx(x,0)], A[Idx(x,1)]), A[Idx(x,2)]), A[Idx(x,3)]), A[Idx(x,4)])]
                D == [x \in 0..4 |-> XorL(C[(x+4)%5], RotL(C[(x+1)%5], 1))]
            IN A' = [i \in 0..24 |-> XorL(A[i], D[i % 5])]
         /\ ph' = "rhopi" /\ UNCHANGED <<r, blk, outacc, pc, res, polys, lam>>
RhoPi == /\ ph = "rhopi"
         /\ A' = [j \in 0..24 |-> LET X == j % 5  Y == j \div 5
                                      y == X
                                      x == CHOOSE xx \in 0..4 : ((2*xx + 3*y) % 5) = Y
                                  IN RotL(A[Idx(x,y)], RhoOff[Idx(x,y)+1])]
         /\ ph' = "chi" /\ UNCHANGED <<r, blk, outacc, pc, res, polys, lam>>
Chi == /\ ph = "chi"
       /\ A' = [j \in 0..24 |-> LET x == j % 5  y == j \div 5
                                    v == XorL(A[j], AndL(NotL(A[Idx((x+1)%5, y)]), A[Idx((x+2)%5, y)]))
                                IN IF j = 0 THEN XorL(v, RC[r]) ELSE v]
       /\ IF r = 24 THEN /\ r' = 1 /\ blk' = blk + 1
                         /\ ph' = (IF blk + 1 < NBlocks(Job) THEN "absorb" ELSE "squeeze")
                    ELSE r' = r + 1 /\ blk' = blk /\ ph' = "theta"
       /\ UNCHANGED <<outacc, pc, res, polys, lam>>
Squeeze == /\ ph = "squeeze"
           /\ LET J == Job
                  acc == outacc \o StateBytes(J.rate)
              IN IF Len(acc) >= J.outlen
                 THEN /\ res' = (Cur :> SubSeq(acc, 1, J.outlen)) @@ res
                      /\ pc' = pc + 1 /\ outacc' = <<>> /\ blk' = 0 /\ ph' = "absorb" /\ r' = 1
                      /\ A' = [i \in 0..24 |-> Zero] /\ UNCHANGED <<polys, lam>>
                 ELSE /\ outacc' = acc /\ ph' = "theta" /\ r' = 1 /\ blk' = blk   \* blk >= NBlocks keeps us squeezing
                      /\ UNCHANGED <<A, pc, res, polys, lam>>


\* ---------- arithmetic: polys = z_0..z_{L-1}, c, t1_0 2^d .. t1_{K-1} 2^d through the NTT (lam 0..7); then w' (K polys) back (lam 10..17)
AHat(i, j) == RejNTT(R(<<"A", i, j>>))
RECURSIVE Dot(_, _, _, _)
Dot(i, v, j, acc) == IF j >= L THEN acc ELSE Dot(i, v, j + 1, PAdd(acc, PMul(AHat(i, j), v[j + 1])))
PSub(a, b) == [n \in 1..256 |-> (a[n] - b[n] + Q) % Q]
RECURSIVE CatPolys(_, _, _)
CatPolys(F(_), i, n) == IF i >= n THEN <<>> ELSE F(i) \o CatPolys(F, i + 1, n)
ArithStart == /\ Cur[1] = "ARITH" /\ lam = -1
              /\ polys' = [n \in 1..(L + 1 + K) |-> IF n <= L THEN ZPoly(n - 1) ELSE IF n = L + 1 THEN Ball(R(<<"BALL", 0, 0>>)) ELSE T1Shifted(n - L - 2)]
              /\ lam' = 0 /\ UNCHANGED <<A, r, ph, blk, outacc, pc, res>>
ArithNTT == /\ Cur[1] = "ARITH" /\ lam \in 0..7
            /\ polys' = [n \in 1..(L + 1 + K) |-> NTTLayer(polys[n], lam)]
            /\ lam' = lam + 1 /\ UNCHANGED <<A, r, ph, blk, outacc, pc, res>>
ArithMul == /\ Cur[1] = "ARITH" /\ lam = 8
            /\ polys' = [i \in 1..K |-> PSub(Dot(i - 1, polys, 0, ZeroPoly), PMul(polys[L + 1], polys[L + 1 + i]))]
            /\ lam' = 10 /\ UNCHANGED <<A, r, ph, blk, outacc, pc, res>>
ArithINTT == /\ Cur[1] = "ARITH" /\ lam \in 10..17
             /\ polys' = [n \in 1..K |-> INTTLayer(polys[n], lam - 10)]
             /\ lam' = lam + 1 /\ UNCHANGED <<A, r, ph, blk, outacc, pc, res>>
ArithFinish == /\ Cur[1] = "ARITH" /\ lam = 18
               /\ LET H(i, n) == IF HintDec.ok /\ <<i, n - 1>> \in HintDec.h THEN 1 ELSE 0
                      W1E(i) == LET w == Scale(polys[i + 1]) IN EncD([n \in 1..256 |-> DH!UseHint(H(i, n), w[n], Gamma2)], W1Bits)
                  IN res' = (<<"w1", 0, 0>> :> CatPolys(W1E, 0, K)) @@ res
               /\ pc' = pc + 1 /\ lam' = 20 /\ UNCHANGED <<A, r, ph, blk, outacc, polys>>
Init == /\ A = [i \in 0..24 |-> Zero] /\ r = 1 /\ ph = "absorb" /\ blk = 0 /\ outacc = <<>>
        /\ pc = 1 /\ res = <<>> /\ polys = <<>> /\ lam = -1
Next == Absorb \/ Theta \/ RhoPi \/ Chi \/ Squeeze \/ ArithStart \/ ArithNTT \/ ArithMul \/ ArithINTT \/ ArithFinish
Spec == Init /\ [][Next]_vars
ASSUME TLCSet(1, [done |-> FALSE, agrees |-> FALSE, hint_ok |-> FALSE, z_ok |-> FALSE, ctilde_ok |-> FALSE, sampled |-> FALSE])
Check == (Cur[1] = "DONE") => LET cok == R(<<"CT", 0, 0>>) = CTilde
                                  verdict == HintDec.ok /\ ZOk /\ cok
                              IN TLCSet(1, [done |-> TRUE, agrees |-> (verdict = JobIn.accepted), hint_ok |-> HintDec.ok, z_ok |-> ZOk, ctilde_ok |-> cok,
                                            sampled |-> /\ \A t \in 0..(K * L - 1) : Len(AHat(t \div L, t % L)) = 256
                                                        /\ Len(Ball(R(<<"BALL", 0, 0>>))) = 256])
Verdict == JsonSerialize("verdict.json", TLCGet(1))
====
