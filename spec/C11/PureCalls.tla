---- MODULE PureCalls ----
(* C11.  The library as a set of UNKNOWN BUT DETERMINISTIC functions.  A pool of objects, each holding an abstract value
   token (the recorder derives tokens from canonical serialisations); a memo of every (operation, argument values) seen so
   far.  A call is explainable iff
     - determinism: the same operation on the same argument VALUES gave the same result before (the receiver's previous
       contents, other objects, library-global data and earlier calls are not part of the key - so "decoding into a used object
       equals decoding into a fresh one" and "Generator() is always the generator" are instances);
     - frame: every pool object other than the receiver holds the value it held before the call.                      *)
EXTENDS Integers, Sequences, FiniteSets, TLC
VARIABLES val,      \* sequence: pool object -> value token
          memo      \* function: <<op, argument tokens, explicit argument token>> -> result token
Key(e) == <<e.op, [i \in 1..Len(e.args) |-> val[e.args[i]]], e.x>>
Deterministic(e) == Key(e) \in DOMAIN memo => memo[Key(e)] = e.res
Frame(e) == \A o \in 1..Len(val) : o # e.recv => e.post[o] = val[o]
ResultIsReceiver(e) == e.recv # 0 => e.post[e.recv] = e.res
Call(e) == /\ Len(e.post) = Len(val) /\ Deterministic(e) /\ Frame(e) /\ ResultIsReceiver(e)
           /\ memo' = IF Key(e) \in DOMAIN memo THEN memo ELSE memo @@ (Key(e) :> e.res)
           /\ val' = e.post
Start(e) == val' = e.post /\ memo' = <<>>
====
