SPECIFICATION Spec
CONSTANTS N = 3  Variant = "once"
INVARIANT ReturnsAreF
CHECK_DEADLOCK FALSE
