---- MODULE Trace_Conc ----
(* Concurrent histories against LazyInit's SPECIFICATION variant ("once"): whatever the interleaving, every call on a shared key /
   scheme / suite returns what the same call returns on an object used by one goroutine only (r.want), nothing panics, and the
   happens-before analysis of the run (Go race detector) found no unsynchronised access while the kind was exercised. *)
EXTENDS Integers, Sequences, TLC, Json
VARIABLES l, bad
OkLine(r) == CASE r.ev = "conc" -> r.panics = 0 /\ r.res = r.want
               [] r.ev = "race" -> ~r.race
               [] OTHER -> FALSE
INSTANCE LinesTrace WITH Ok <- OkLine
ASSUME TLCSet(1, 0) /\ TLCSet(2, {}) /\ TLCSet(3, ndJsonDeserialize("trace.ndjson"))
====
