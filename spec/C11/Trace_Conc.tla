---- MODULE Trace_Conc ----
(* Concurrent histories against LazyInit's SPECIFICATION variant ("once"): whatever the interleaving, every call on a shared key /
   scheme / suite returns what the same call returns on an object used by one goroutine only (r.want), nothing panics, and the
   happens-before analysis of the run (Go race detector) found no unsynchronised access while the kind was exercised.
   "args" lines: a call whose byte-slice arguments are windows of one larger buffer (canaries around them, spare capacity behind them that
   runs on into the next argument) leaves arguments and canaries untouched and returns what it returns on private exactly-sized copies. *)
EXTENDS Integers, Sequences, TLC, Json
VARIABLES l, bad
OkLine(r) == CASE r.ev = "conc" -> r.panics = 0 /\ r.res = r.want
               [] r.ev = "race" -> ~r.race
               [] r.ev = "retain" -> r.panics = 0 /\ r.same_after_wipe      \* a decoded object owns its data: overwriting the buffer it was decoded from changes nothing
               [] r.ev = "args" -> r.panics = 0 /\ r.args_intact /\ r.canaries_intact /\ r.same_result      \* byte-slice arguments are read only, and only within their length
               [] OTHER -> FALSE
INSTANCE LinesTrace WITH Ok <- OkLine
ASSUME TLCSet(1, 0) /\ TLCSet(2, {}) /\ TLCSet(3, ndJsonDeserialize("trace.ndjson"))
====
