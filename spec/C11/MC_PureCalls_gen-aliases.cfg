SPECIFICATION Spec
CONSTANTS Bug = "gen-aliases"  MaxDepth = 4
INVARIANT Explainable
CHECK_DEADLOCK FALSE
