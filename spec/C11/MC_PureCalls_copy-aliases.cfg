SPECIFICATION Spec
CONSTANTS Bug = "copy-aliases"  MaxDepth = 4
INVARIANT Explainable
CHECK_DEADLOCK FALSE
