---- MODULE MC_PureCalls ----
(* Non-vacuity of PureCalls: a toy implementation over Z_5 with three objects and the operations add, neg, gen, copy is
   explored exhaustively to depth MaxDepth.  The faithful variant is always explainable (Explainable is an invariant); the
   variants with a seeded aliasing bug are caught: TLC reaches a state where a call is NOT explainable
     Bug = "gen-aliases"   gen() returns a handle to shared storage, so an in-place neg of a returned generator changes what
                           gen() returns later          (determinism fails)
     Bug = "copy-aliases"  copy shares storage: a later in-place update of the copy changes the source       (frame fails) *)
EXTENDS Integers, Sequences, FiniteSets, TLC
CONSTANTS Bug, MaxDepth
VARIABLES val, memo, g, alias, depth, ok
PC == INSTANCE PureCalls
Obj == 1..3
Init == val = <<0, 0, 0>> /\ memo = <<>> /\ g = 1 /\ alias = {} /\ depth = 0 /\ ok = TRUE
\* the toy implementation: returns the record a recorder would log
Write(o, v) == LET grp == IF \E a \in alias : o \in a THEN UNION {a \in alias : o \in a} ELSE {o}       \* objects sharing storage
               IN [i \in Obj |-> IF i \in grp THEN v ELSE val[i]]
Do(op, r, a, b) ==
  LET newv == CASE op = "add" -> (val[a] + val[b]) % 5 [] op = "neg" -> (5 - val[a]) % 5 [] op = "gen" -> g [] op = "copy" -> val[a]
      post == Write(r, newv)
      args == CASE op = "add" -> <<a, b>> [] op = "neg" -> <<a>> [] op = "gen" -> <<>> [] op = "copy" -> <<a>>
      e == [op |-> op, recv |-> r, args |-> args, x |-> 0, res |-> post[r], post |-> post]
  IN /\ depth < MaxDepth /\ depth' = depth + 1
     /\ ok' = (PC!Deterministic(e) /\ PC!Frame(e) /\ PC!ResultIsReceiver(e))
     /\ memo' = IF PC!Key(e) \in DOMAIN memo THEN memo ELSE memo @@ (PC!Key(e) :> e.res)
     /\ val' = post
     /\ g' = IF Bug = "gen-aliases" /\ \E s \in alias : r \in s /\ 0 \in s THEN newv ELSE g         \* 0 stands for the library's own storage
     /\ alias' = CASE op = "gen" /\ Bug = "gen-aliases" -> {s \ {r} : s \in alias} \cup {{0, r}}
                   [] op = "copy" /\ Bug = "copy-aliases" /\ r # a -> {s \ {r} : s \in alias} \cup {{r, a}}
                   [] op \in {"gen", "copy"} -> {s \ {r} : s \in alias}
                   [] OTHER -> alias                                                                  \* in-place update keeps sharing
Next == ok /\ \E op \in {"add", "neg", "gen", "copy"}, r, a, b \in Obj : Do(op, r, a, b)
Spec == Init /\ [][Next]_<<val, memo, g, alias, depth, ok>>
Explainable == ok
====
