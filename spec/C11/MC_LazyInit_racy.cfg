SPECIFICATION Spec
CONSTANTS N = 3  Variant = "racy"
INVARIANT ReturnsAreF
CHECK_DEADLOCK FALSE
