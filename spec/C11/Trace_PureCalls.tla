---- MODULE Trace_PureCalls ----
(* Recorded call sequences (several sessions, each opened by a "start" line with the initial value tokens) against PureCalls. *)
EXTENDS Integers, Sequences, TLC, Json
VARIABLES val, memo, l
INSTANCE PureCalls
Tr == TLCGet(3)
Step(e) == CASE e.ev = "start" -> Start(e)
             [] e.ev = "call" -> e.panics = 0 /\ Call(e)
             [] OTHER -> FALSE
TInit == l = 1 /\ val = <<>> /\ memo = <<>>
TNext == l <= Len(Tr) /\ Step(Tr[l]) /\ l' = l + 1
TSpec == TInit /\ [][TNext]_<<val, memo, l>>
ASSUME TLCSet(1, 0) /\ TLCSet(3, ndJsonDeserialize("trace.ndjson"))
HighWater == TLCSet(1, IF l > TLCGet(1) THEN l ELSE TLCGet(1))
Verdict == JsonSerialize("verdict.json", [consumed |-> TLCGet(1) - 1, total |-> Len(Tr)])
====
