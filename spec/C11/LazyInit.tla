---- MODULE LazyInit ----
(* C11, concurrency.  A key object with a lazily computed, cached derived value (public key, 2*delta*s_i, expanded matrix):
   N goroutines call the getter of one fresh shared object at the same time.
     Variant = "once"   check-and-fill is one atomic step (sync.Once / computed at construction)         - the SPECIFICATION
     Variant = "racy"   if cache == nil { cache = new(zeroed); fill(cache) }; return *cache             - what an unsynchronised
                        getter does: publish pointer, fill, read as separate steps
   Property: every value a getter returns is F (the value the same call returns when run alone).  TLC proves it for "once" and
   produces the schedule (thread 2 reads between thread 1's publish and fill) for "racy"; the stress driver is shaped after
   that schedule and the race detector reports the unsynchronised accesses of the same window.                       *)
EXTENDS Integers, FiniteSets, TLC
CONSTANTS N, Variant
F == 7                                   \* the derived value; 0 is the zeroed allocation
VARIABLES cache,     \* "nil" | "zero" (published, not yet filled) | "full"
          pc, ret
Thr == 1..N
vars == <<cache, pc, ret>>
Init == cache = "nil" /\ pc = [t \in Thr |-> "start"] /\ ret = [t \in Thr |-> -1]
Once(t) == /\ Variant = "once" /\ pc[t] = "start"
           /\ cache' = "full" /\ ret' = [ret EXCEPT ![t] = F] /\ pc' = [pc EXCEPT ![t] = "done"]
Check(t) == /\ Variant = "racy" /\ pc[t] = "start"
            /\ pc' = [pc EXCEPT ![t] = IF cache = "nil" THEN "publish" ELSE "read"] /\ UNCHANGED <<cache, ret>>
Publish(t) == /\ pc[t] = "publish" /\ cache' = "zero" /\ pc' = [pc EXCEPT ![t] = "fill"] /\ UNCHANGED ret
Fill(t) == /\ pc[t] = "fill" /\ cache' = "full" /\ pc' = [pc EXCEPT ![t] = "read"] /\ UNCHANGED ret
Read(t) == /\ pc[t] = "read" /\ ret' = [ret EXCEPT ![t] = IF cache = "full" THEN F ELSE 0]
           /\ pc' = [pc EXCEPT ![t] = "done"] /\ UNCHANGED cache
Next == \E t \in Thr : Once(t) \/ Check(t) \/ Publish(t) \/ Fill(t) \/ Read(t)
Spec == Init /\ [][Next]_vars
ReturnsAreF == \A t \in Thr : pc[t] = "done" => ret[t] = F
====
