SPECIFICATION Spec
CONSTANTS Bug = "none"  MaxDepth = 4
INVARIANT Explainable
CHECK_DEADLOCK FALSE
